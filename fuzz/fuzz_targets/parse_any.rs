#![no_main]
//! C04 in-process shard: the first input byte selects one of the 39 registered suffixes (or the diff
//! parser), the rest is the file content / diff text. Any panic, abort or ASan report is a finding.
use blockwatch::blocks::{parse_blocks, FileSystem, PathChecker};
use blockwatch::diff_parser::{line_changes_from_diff, LineChange};
use blockwatch::language_parsers::language_parsers;
use libfuzzer_sys::fuzz_target;
use std::collections::HashMap;
use std::path::{Path, PathBuf};

struct OneFile {
    name: String,
    content: String,
}

impl FileSystem for OneFile {
    fn read_to_string(&self, _path: &Path) -> anyhow::Result<String> {
        Ok(self.content.clone())
    }
    fn walk(&self) -> impl Iterator<Item = anyhow::Result<PathBuf>> {
        std::iter::once(Ok(PathBuf::from(self.name.clone())))
    }
}

struct AllowAll;

impl PathChecker for AllowAll {
    fn should_allow(&self, _path: &Path) -> bool {
        true
    }
    fn should_ignore(&self, _path: &Path) -> bool {
        false
    }
}

/// Per-thread cache for a value whose type cannot be named outside the crate.
fn cached<T: Clone + 'static>(make: impl FnOnce() -> T) -> T {
    thread_local! {
        static SLOT: std::cell::RefCell<Option<Box<dyn std::any::Any>>> = const { std::cell::RefCell::new(None) };
    }
    SLOT.with(|slot| {
        let mut slot = slot.borrow_mut();
        if slot.is_none() {
            *slot = Some(Box::new(make()));
        }
        slot.as_ref().unwrap().downcast_ref::<T>().unwrap().clone()
    })
}

const SUFFIXES: [&str; 39] = [
    "Makefile", "bash", "c", "cc", "cpp", "cs", "css", "d.ts", "go", "go.mod", "go.sum", "go.work", "h", "htm", "html", "java",
    "js", "jsx", "kt", "kts", "makefile", "markdown", "md", "mk", "php", "phtml", "py", "pyi", "rb", "rs", "sh", "sql", "swift",
    "toml", "ts", "tsx", "xml", "yaml", "yml",
];

fuzz_target!(|data: &[u8]| {
    if data.is_empty() {
        return;
    }
    let sel = data[0] as usize % (SUFFIXES.len() + 1);
    let Ok(text) = std::str::from_utf8(&data[1..]) else {
        return;
    };
    if sel == SUFFIXES.len() {
        let _ = line_changes_from_diff(text);
        return;
    }
    let suffix = SUFFIXES[sel];
    if suffix == "swift" {
        return; // recorded finding: tree-sitter-swift's scanner state is a zero-size allocation
    }
    let name = if suffix == "Makefile" || suffix == "makefile" || suffix.starts_with("go.") {
        suffix.to_string()
    } else {
        format!("f.{suffix}")
    };
    let fs = OneFile {
        name: name.clone(),
        content: text.to_string(),
    };
    // every line counts as changed, so that both selection paths (content / start tag) are exercised
    let changes: Vec<LineChange> = (1..=text.lines().count().max(1))
        .map(|line| LineChange { line, ranges: None })
        .collect();
    let by_file = HashMap::from([(PathBuf::from(name), changes)]);
    // the 23 tree-sitter parsers are built once per process (the map holds Rc handles, cloning is cheap)
    let parsers = cached(|| language_parsers().expect("parsers"));
    let _ = parse_blocks(by_file, data[0] & 0x80 != 0, &fs, &AllowAll, parsers, HashMap::new());
});
