"""Builds of blockwatch from the *current working tree* of the repository.

Every flavour has its own cargo target dir under /verif/.cache, so cargo's fingerprints decide
what is stale: a check invoked after sources changed recompiles only the blockwatch crate.
"""
import fcntl
import hashlib
import os
import subprocess
import sys
import time

VERIF = os.path.dirname(os.path.dirname(os.path.abspath(__file__)))
REPO = os.environ.get("VERIF_REPO", "/repo")
CACHE = os.environ.get("VERIF_CACHE", os.path.join(VERIF, ".cache"))
TARGET_TRIPLE = "x86_64-unknown-linux-gnu"


class BuildError(Exception):
    pass


def _base_env():
    env = {
        "PATH": os.environ.get("PATH", "/usr/local/bin:/usr/bin:/bin"),
        "HOME": os.environ.get("HOME", "/root"),
        "CARGO_NET_OFFLINE": "true",
        "CARGO_TERM_COLOR": "never",
        "LC_ALL": "C.UTF-8",
    }
    for k in ("RUSTUP_HOME", "CARGO_HOME", "RUSTUP_TOOLCHAIN"):
        if k in os.environ and k != "RUSTUP_TOOLCHAIN":
            env[k] = os.environ[k]
    return env


FLAVOURS = {
    # name: (toolchain, cargo args, extra env, relative path of the binary in the target dir)
    "rel": (None, ["--release"], {}, "release/blockwatch"),
    "dbg": (None, [], {}, "debug/blockwatch"),
    "asan": (
        "+nightly",
        ["--release", "--target", TARGET_TRIPLE],
        {
            "RUSTFLAGS": "-Zsanitizer=address -Cforce-frame-pointers=yes",
            "CC": "clang-14",
            "CXX": "clang++-14",
            "CFLAGS": "-fsanitize=address -fno-omit-frame-pointer",
            "CXXFLAGS": "-fsanitize=address -fno-omit-frame-pointer",
        },
        TARGET_TRIPLE + "/release/blockwatch",
    ),
    "tsan": (
        "+nightly",
        ["--release", "--target", TARGET_TRIPLE, "-Zbuild-std"],
        {"RUSTFLAGS": "-Zsanitizer=thread"},
        TARGET_TRIPLE + "/release/blockwatch",
    ),
}

_TARGET_DIR = {"rel": "t-std", "dbg": "t-std", "asan": "t-asan", "tsan": "t-tsan"}


def target_dir(flavour):
    return os.path.join(CACHE, _TARGET_DIR[flavour])


def binary_path(flavour):
    return os.path.join(target_dir(flavour), FLAVOURS[flavour][3])


def source_hash(repo):
    """Content hash of everything cargo compiles from the repository (not of mtimes)."""
    hsh = hashlib.sha256()
    for top in ("Cargo.toml", "Cargo.lock", "build.rs", "src", ".cargo"):
        path = os.path.join(repo, top)
        if os.path.isfile(path):
            hsh.update(top.encode() + b"\0" + open(path, "rb").read() + b"\0")
        elif os.path.isdir(path):
            for root, dirs, files in os.walk(path):
                dirs.sort()
                for fn in sorted(files):
                    fp = os.path.join(root, fn)
                    hsh.update(os.path.relpath(fp, repo).encode() + b"\0")
                    try:
                        hsh.update(open(fp, "rb").read())
                    except OSError:
                        pass
                    hsh.update(b"\0")
    return hsh.hexdigest()


def build(flavour, quiet=True, repo=None, copy_to=None):
    """Build (or refresh) one flavour from the repo working tree; returns the binary path.

    Raises BuildError when cargo fails; callers map that to an *inconclusive* run, never to a
    violation.
    """
    repo = repo or REPO
    toolchain, args, extra, _rel = FLAVOURS[flavour]
    os.makedirs(CACHE, exist_ok=True)
    tdir = target_dir(flavour)
    cmd = ["cargo"] + ([toolchain] if toolchain else []) + [
        "build", "--offline", "--bin", "blockwatch",
        "--manifest-path", os.path.join(repo, "Cargo.toml"),
        "--target-dir", tdir,
    ] + args
    env = _base_env()
    env.update(extra)
    lock_path = os.path.join(CACHE, "build-%s.lock" % _TARGET_DIR[flavour])
    t0 = time.time()
    stamp = os.path.join(CACHE, "srchash-%s" % flavour)
    with open(lock_path, "w") as lock:
        fcntl.flock(lock, fcntl.LOCK_EX)
        # cargo decides freshness of a path package by mtimes; a tree whose *content* changed while mtimes
        # went backwards (restored snapshot, rsync -a, git stash) would be taken for fresh. The crate is
        # therefore cleaned whenever the content hash differs from the one the cached binary was built from.
        want = source_hash(repo)
        have = open(stamp).read().strip() if os.path.exists(stamp) else None
        if have != want and os.path.isdir(tdir):
            clean = ["cargo"] + ([toolchain] if toolchain else []) + [
                "clean", "--offline", "-p", "blockwatch", "--manifest-path", os.path.join(repo, "Cargo.toml"),
                "--target-dir", tdir] + [a for a in args if a in ("--release",)]
            if "--target" in args:
                clean += ["--target", TARGET_TRIPLE]
            subprocess.run(clean, env=env, stdout=subprocess.PIPE, stderr=subprocess.STDOUT, text=True)
        proc = subprocess.run(cmd, env=env, stdout=subprocess.PIPE, stderr=subprocess.STDOUT, text=True)
        if proc.returncode == 0:
            with open(stamp, "w") as f:
                f.write(want)
            if copy_to and os.path.exists(binary_path(flavour)):
                # a private copy taken under the build lock: a concurrent rebuild (another check, a changed tree)
                # can then neither remove nor replace the binary this run is using
                os.makedirs(copy_to, exist_ok=True)
                private = os.path.join(copy_to, "blockwatch-" + flavour)
                import shutil
                shutil.copy2(binary_path(flavour), private)
    if proc.returncode != 0:
        raise BuildError("cargo build (%s) failed:\n%s" % (flavour, proc.stdout[-4000:]))
    path = binary_path(flavour)
    if not os.path.exists(path):
        raise BuildError("binary missing after build: " + path)
    if not quiet:
        sys.stderr.write("[build] %s ok in %.1fs -> %s\n" % (flavour, time.time() - t0, path))
    if copy_to:
        return os.path.join(copy_to, "blockwatch-" + flavour)
    return path


def main(argv):
    flavours = argv[1:] or ["rel", "dbg", "asan", "tsan"]
    rc = 0
    for f in flavours:
        try:
            build(f, quiet=False)
        except BuildError as e:
            sys.stderr.write(str(e) + "\n")
            rc = 1
    return rc


if __name__ == "__main__":
    sys.exit(main(sys.argv))
