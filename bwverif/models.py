"""Executable reference models of the four line validators, written from the property statements.

They reproduce Rust's `str::lines`, `str::trim` (Unicode White_Space, *not* Python's isspace) and
the `f64` literal grammar; regexes are restricted by the callers to constructs whose semantics
coincide in Python `re` and Rust `regex`.
"""
import re

# Unicode White_Space property (what Rust's char::is_whitespace tests)
_WS = set("\t\n\x0b\x0c\r \x85\xa0\u1680\u2028\u2029\u202f\u205f\u3000") | {chr(c) for c in range(0x2000, 0x200b)}


def rust_lines(s):
    """str::lines(): split on \\n, drop one trailing \\r per line, no final empty line."""
    if s == "":
        return []
    parts = s.split("\n")
    if parts and parts[-1] == "":
        parts.pop()
    return [p[:-1] if p.endswith("\r") else p for p in parts]


def rust_trim(s):
    i, j = 0, len(s)
    while i < j and s[i] in _WS:
        i += 1
    while j > i and s[j - 1] in _WS:
        j -= 1
    return s[i:j], i


_F64 = re.compile(r"^[+-]?(?:inf|infinity|nan|(?:\d+\.?\d*|\.\d+)(?:[eE][+-]?\d+)?)$", re.I)


def rust_f64(s):
    """f64::from_str: None when Rust would reject the literal."""
    if not _F64.match(s):
        return None
    try:
        return float(s)
    except ValueError:
        return None


def bcol(line, char_index):
    """1-based byte column of the character at char_index in line."""
    return len(line[:char_index].encode("utf-8")) + 1


def _key(line, regex):
    """(key, char start, char end exclusive) or None when the line contributes no key."""
    if regex is None:
        t, i = rust_trim(line)
        if t == "":
            return None
        return t, i, i + len(t)
    m = regex.search(line)
    if not m:
        return None
    if "value" in regex.groupindex and m.group("value") is not None:
        return m.group("value"), m.start("value"), m.end("value")
    return m.group(0), m.start(0), m.end(0)


def keys_of(content, pattern=None):
    regex = re.compile(pattern) if pattern else None
    out = []
    for idx, line in enumerate(rust_lines(content)):
        k = _key(line, regex)
        if k is not None:
            out.append((idx, line) + k)
    return out


def keep_sorted(content, direction="", pattern=None, numeric=False):
    """None, or (line index in content, key, byte col start, byte col end inclusive) of the first key
    strictly out of order relative to its predecessor. Raises ValueError for non-numeric keys."""
    d = direction.strip().lower() if direction.strip() == "" else direction.lower()
    desc = d == "desc"
    prev = None
    for idx, line, key, cs, ce in keys_of(content, pattern):
        if prev is not None:
            if numeric:
                a, b = rust_f64(prev), rust_f64(key)
                if a is None or b is None:
                    raise ValueError("non-numeric key")
                bad = (a < b) if desc else (a > b)
            else:
                bad = (prev < key) if desc else (prev > key)
            if bad:
                return idx, key, bcol(line, cs), bcol(line, ce) - 1
        prev = key
    return None


def keep_unique(content, pattern=None):
    seen = set()
    for idx, line, key, cs, ce in keys_of(content, pattern):
        if key in seen:
            return idx, key, bcol(line, cs), bcol(line, ce) - 1
        seen.add(key)
    return None


def line_pattern(content, pattern):
    regex = re.compile(pattern)
    for idx, line in enumerate(rust_lines(content)):
        t, i = rust_trim(line)
        if t == "":
            continue
        if not regex.search(t):
            return idx, t, bcol(line, i), bcol(line, i + len(t)) - 1
    return None


_LC = re.compile(r"^\s*(<=|>=|==|<|>)\s*(\d+)\s*$")


def line_count(content, expr):
    """None, or dict(actual, op, expected) when the bound is broken."""
    m = _LC.match(expr)
    if not m:
        raise ValueError("bad line-count")
    op, n = m.group(1), int(m.group(2))
    actual = sum(1 for line in rust_lines(content) if rust_trim(line)[0] != "")
    ok = {"<": actual < n, "<=": actual <= n, "==": actual == n, ">=": actual >= n, ">": actual > n}[op]
    return None if ok else {"actual": actual, "op": op, "expected": n}
