-- always satisfied
function validate(ctx, content)
  return nil
end
