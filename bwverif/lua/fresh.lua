-- satisfied as long as every block gets a fresh interpreter state: a global left behind by an earlier call shows up as a violation
function validate(ctx, content)
  seen_before = (seen_before or 0) + 1
  if seen_before > 1 then
    return "interpreter state reused: call #" .. seen_before
  end
  return nil
end
