-- C17 probe: enumerates everything reachable from the script's environment and returns it.
-- Walks _G, the string metatable and the metatable of every reached value, following table keys
-- and values; reports "path=type" for every non-scalar value, one per line, sorted.
local function probe()
  local seen, out, queue = {}, {}, {}
  local rawtype = type
  local function push(v, path)
    local t = rawtype(v)
    if t ~= "table" and t ~= "function" and t ~= "userdata" and t ~= "thread" then return end
    if seen[v] then
      out[#out + 1] = path .. "=alias:" .. seen[v]
      return
    end
    seen[v] = path
    out[#out + 1] = path .. "=" .. t
    queue[#queue + 1] = { v, path }
  end
  push(_G, "_G")
  if getmetatable then
    local ok, smt = pcall(getmetatable, "")
    if ok and smt then push(smt, "<stringmt>") end
  end
  local i = 1
  while i <= #queue do
    local v, path = queue[i][1], queue[i][2]
    i = i + 1
    if rawtype(v) == "table" then
      local k, val = nil, nil
      while true do
        k, val = next(v, k)
        if k == nil then break end
        local kn = rawtype(k) == "string" and k or ("[" .. tostring(k) .. "]")
        push(val, path .. "." .. kn)
        if rawtype(k) ~= "string" then push(k, path .. ".<key>" .. kn) end
      end
    end
    if getmetatable then
      local ok, mt = pcall(getmetatable, v)
      if ok and mt ~= nil then push(mt, path .. ".<mt>") end
    end
  end
  table.sort(out)
  return table.concat(out, "\n")
end

-- the same enumeration while the script's top-level chunk runs (restrictions must already be in place then)
local load_ok, load_res = pcall(probe)

function validate(ctx, content)
  local ok, res = pcall(probe)
  if not ok then return "PROBE-ERROR " .. tostring(res) end
  if not load_ok then return "PROBE-ERROR at load time " .. tostring(load_res) end
  return "PROBE\n" .. res .. "\n@@LOADTIME\n" .. load_res
end
