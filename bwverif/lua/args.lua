-- C18 probe: serialises exactly what blockwatch passed to validate(), length-prefixed so that the
-- harness can decode it unambiguously; counts calls within this Lua state; optionally logs each call
-- (safe mode) and busy-loops so that completion order varies.
local function enc(s) s = tostring(s); return #s .. ":" .. s end

function validate(ctx, content)
  calls = (calls or 0) + 1
  local keys = {}
  for k in pairs(ctx.attrs) do keys[#keys + 1] = k end
  table.sort(keys)
  local parts = { enc(ctx.file), enc(math.type(ctx.line) or type(ctx.line)), enc(ctx.line), enc(calls), enc(#keys) }
  for _, k in ipairs(keys) do
    parts[#parts + 1] = enc(k)
    parts[#parts + 1] = enc(ctx.attrs[k])
  end
  parts[#parts + 1] = enc(type(content))
  parts[#parts + 1] = enc(content)
  -- bounded recursion through a C function (150 nested string.gsub callbacks; Lua's own limit is 200): needs native stack, nothing else
  local function dive(n)
    if n == 0 then return "" end
    return (string.gsub("x", "x", function() return dive(n - 1) end))
  end
  if ctx.attrs.dive then dive(tonumber(ctx.attrs.dive)) end
  local spin = tonumber(ctx.attrs.spin or "0") or 0
  local x = 0
  for i = 1, spin do x = x + i % 7 end
  if ctx.attrs.log and io then
    local f = io.open(ctx.attrs.log, "a")
    if f then f:write(ctx.attrs.name .. "\n"); f:close() end
  end
  if ctx.attrs.verdict == "nil" then return nil end
  return "ARGS" .. table.concat(parts)
end
