-- C14 side-effect monitor (run in BLOCKWATCH_LUA_MODE=safe): leaves a marker file when executed
function validate(ctx, content)
  local f = io.open(ctx.attrs["marker"], "a")
  if f then f:write("ran\n"); f:close() end
  return nil
end
