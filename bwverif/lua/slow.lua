-- constant verdict after a busy loop (a few tens of milliseconds): lets schedules differ between executions
function validate(ctx, content)
  local x = 0
  for i = 1, 1500000 do x = x + i % 7 end
  return "lua says no (slowly)"
end
