-- C03/C18 probe: returns the block's name and the content exactly as blockwatch passed it.
function validate(ctx, content)
  return (ctx.attrs.name or "?") .. "|" .. content
end
