-- C17 battery: concrete escape attempts. Every attempt is isolated by pcall; the report says for each
-- attempt whether it raised ("blocked:<error>") or what it returned ("ok:<value>").
local function S(v) return tostring(v) end
-- references captured while the top-level chunk runs: a sandbox applied only afterwards would leave them usable
local L_dofile, L_loadfile, L_io, L_os, L_require, L_package, L_debug = dofile, loadfile, io, os, require, package, debug

function validate(ctx, content)
  local a = ctx.attrs
  local nonce, marker, cdir, libm = a["nonce-path"], a["marker-path"], a["cmod-dir"], a["libm"]
  local out = {}
  local function try(name, f)
    local ok, r1, r2 = pcall(f)
    if ok then out[#out + 1] = name .. "=ok:" .. S(r1) .. (r2 ~= nil and ("," .. S(r2)) or "")
    else out[#out + 1] = name .. "=blocked:" .. S(r1) end
  end
  try("io_open_read", function() local f = io.open(nonce, "r"); local s = f:read("a"); f:close(); return s end)
  try("io_open_write", function() local f = io.open(marker .. ".io", "w"); f:write("x"); f:close(); return "written" end)
  try("io_lines", function() for l in io.lines(nonce) do return l end end)
  try("io_popen", function() local p = io.popen("cat '" .. nonce .. "'"); local s = p:read("a"); p:close(); return s end)
  try("os_execute", function() return os.execute("touch '" .. marker .. ".os'") end)
  try("os_getenv", function() return os.getenv("BWVERIF_SECRET_ENV") end)
  try("os_remove", function() return os.remove(marker .. ".nonexistent") end)
  try("os_rename", function() return os.rename(marker .. ".nonexistent", marker .. ".ren") end)
  try("os_tmpname", function() return os.tmpname() end)
  try("os_time", function() return os.time() end)
  try("require_io", function() return require("io").open(nonce, "r"):read("a") end)
  try("require_os", function() return require("os").getenv("BWVERIF_SECRET_ENV") end)
  try("package_loaded_io", function() return package.loaded.io.open(nonce, "r"):read("a") end)
  try("package_loadlib", function() local f, e = package.loadlib(libm, "*"); if f == nil then error(e) end; return "loaded" end)
  try("package_loadlib_sym", function() local f, e = package.loadlib(cdir .. "/vmod.so", "luaopen_vmod"); if f == nil then error(e) end; return "loaded:" .. type(f) end)
  try("require_cmod", function() package.cpath = cdir .. "/?.so"; local m = require("vmod"); return "loaded:" .. S(m) end)
  -- a dotted name goes through the "all-in-one" searcher: vmod.so, entry point luaopen_vmod_sub
  try("require_cmod_dotted", function() package.cpath = cdir .. "/?.so"; local m = require("vmod.sub"); return "loaded:" .. S(m) end)
  try("require_luamod", function() package.path = cdir .. "/?.lua"; local m = require("lmod"); return "loaded:" .. S(m) end)
  try("dofile", function() return dofile(nonce) end)
  try("loadfile", function() local f, e = loadfile(nonce); if f == nil then error(e) end; return f() end)
  try("load_text_io", function() local f = load("return io ~= nil and io.open ~= nil"); return f() end)
  try("load_text_os", function() local f = load("return os ~= nil and os.getenv('BWVERIF_SECRET_ENV')"); return f() end)
  try("load_bytecode", function() local f = load(string.dump(function() return io ~= nil end)); return f() end)
  try("load_env_escape", function() local f = load("return _ENV.io, _ENV.os", "c", "t", _G); local x, y = f(); return x ~= nil or y ~= nil end)
  try("debug_getregistry", function() return type(debug.getregistry()) end)
  try("debug_getinfo", function() return debug.getinfo(1, "S").short_src end)
  try("debug_via_registry_io", function() local r = debug.getregistry(); return r._LOADED and r._LOADED.io ~= nil end)
  try("rawget_io", function() return rawget(_G, "io") ~= nil end)
  try("rawget_os", function() return rawget(_G, "os") ~= nil end)
  try("rawget_debug", function() return rawget(_G, "debug") ~= nil end)
  try("rawget_package", function() return rawget(_G, "package") ~= nil end)
  try("stringmt_index", function() local mt = getmetatable(""); return mt.__index == string end)
  try("stringmt_foreign", function() local mt = getmetatable(""); return mt.__index.open ~= nil or mt.__index.getenv ~= nil end)
  try("coroutine_io", function() return coroutine.wrap(function() return io.open(nonce, "r"):read("a") end)() end)
  try("coroutine_dofile", function() return coroutine.wrap(function() return dofile(nonce) end)() end)
  try("pcall_require", function() local ok, m = pcall(require, "debug"); if not ok then error(m) end; return type(m) end)
  try("searchers", function() return #(package.searchers) end)
  -- chunks compiled at run time get the *real* global table as _ENV unless told otherwise
  try("load_ret_dofile", function() local f = load("return dofile")(); if f == nil then error("nil") end; return f(nonce) end)
  try("load_ret_loadfile", function() local f = load("return loadfile")(); if f == nil then error("nil") end; return f(nonce)() end)
  try("load_ret_G_dofile", function() local g = load("return _G")(); if g.dofile == nil then error("nil") end; return g.dofile(nonce) end)
  try("load_ret_require", function() local f = load("return require")(); if f == nil then error("nil") end; return f("io") ~= nil end)
  try("load_ret_io_open", function() local t = load("return io")(); if t == nil then error("nil") end; return t.open(nonce, "r"):read("a") end)
  try("load_ret_os_getenv", function() local t = load("return os")(); if t == nil then error("nil") end; return t.getenv("BWVERIF_SECRET_ENV") end)
  try("load_ret_debug", function() local t = load("return debug")(); if t == nil then error("nil") end; return type(t.getregistry()) end)
  try("loadtime_dofile", function() return L_dofile(nonce) end)
  try("loadtime_loadfile", function() local f, e = L_loadfile(nonce); if f == nil then error(e) end; return f() end)
  try("loadtime_io", function() return L_io.open(nonce, "r"):read("a") end)
  try("loadtime_os", function() return L_os.getenv("BWVERIF_SECRET_ENV") end)
  try("loadtime_require", function() return L_require("io") ~= nil end)
  try("loadtime_package", function() return L_package ~= nil and L_package.loadlib ~= nil end)
  try("loadtime_debug", function() return type(L_debug.getregistry()) end)
  try("print_exists", function() return type(print) end)
  return "BATTERY\n" .. table.concat(out, "\n")
end
