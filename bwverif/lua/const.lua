-- constant verdict: always reports a violation
function validate(ctx, content)
  return "lua says no"
end
