-- a string result that is not valid UTF-8 cannot be carried by a diagnostic: the run fails or reports the block, it never stays silent
function validate(ctx, content) return "bad \xff\xfe bytes" end
