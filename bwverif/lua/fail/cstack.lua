-- unbounded recursion through a C function (string.gsub callback): Lua must stop it with its own "C stack overflow" error, which
-- is a runtime error of the script like any other - never a crash of the host process
local function dive(n)
  return (string.gsub("x", "x", function() return dive(n + 1) end))
end
function validate(ctx, content)
  return dive(1)
end
