function validate(ctx, content) return nil end
error("boom at the bottom of the script, after validate was defined")
