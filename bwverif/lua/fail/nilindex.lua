function validate(ctx, content) local t = nil; return t.x end
