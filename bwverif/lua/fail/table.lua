function validate(ctx, content) return {"x"} end
