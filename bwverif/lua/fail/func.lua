function validate(ctx, content) return function() end end
