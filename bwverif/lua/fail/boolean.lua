function validate(ctx, content) return true end
