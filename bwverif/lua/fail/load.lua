error("boom at load time")
function validate(ctx, content) return nil end
