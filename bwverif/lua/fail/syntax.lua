function validate(ctx, content
  return nil
