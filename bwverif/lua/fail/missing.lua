local function validate(ctx, content) return nil end
