function validate(ctx, content) return false end
