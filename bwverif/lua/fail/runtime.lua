function validate(ctx, content)
  local spin = tonumber(ctx.attrs.spin or "0") or 0
  local x = 0
  for i = 1, spin do x = x + i % 7 end
  error("boom from validate")
end
