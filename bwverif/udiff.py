"""Reference interpreter of git's unified diff format (shares nothing with the unidiff crate).

For every file section: the change *groups* (maximal runs of -/+ lines), each with the old-file
line numbers it removes, the new-file line numbers it adds and the new-file position at which a
pure deletion sits.
"""
import re

HUNK_RE = re.compile(rb"^@@ -(\d+)(?:,(\d+))? \+(\d+)(?:,(\d+))? @@")


class Group:
    __slots__ = ("removed", "added", "pos", "removed_text", "added_text")

    def __init__(self, pos):
        self.removed, self.added, self.pos = [], [], pos   # pos = new-file line number the group starts at
        self.removed_text, self.added_text = [], []

    def pure_deletion(self):
        return bool(self.removed) and not self.added

    def pure_addition(self):
        return bool(self.added) and not self.removed


class FileDiff:
    def __init__(self):
        self.old_path = self.new_path = None
        self.groups = []
        self.new_file = self.deleted = self.binary = False
        self.rename_from = self.rename_to = None
        self.hunks = 0


def _unquote(p):
    p = p.rstrip(b"\t")
    if p.startswith(b'"') and p.endswith(b'"'):
        # C-style quoting (non-ASCII or special characters): decode octal escapes
        body = p[1:-1]
        body = re.sub(rb"\\([0-7]{3})", lambda m: bytes([int(m.group(1), 8)]), body)
        body = body.replace(b'\\"', b'"').replace(b"\\\\", b"\\").replace(b"\\t", b"\t").replace(b"\\n", b"\n")
        return body
    return p


def parse(diff_bytes):
    """-> list of FileDiff (in diff order)."""
    files = []
    cur = None
    lines = diff_bytes.split(b"\n")
    i = 0
    n = len(lines)
    while i < n:
        ln = lines[i]
        if ln.startswith(b"diff --git "):
            cur = FileDiff()
            files.append(cur)
            i += 1
            continue
        if cur is None:
            i += 1
            continue
        if ln.startswith(b"new file mode"):
            cur.new_file = True
        elif ln.startswith(b"deleted file mode"):
            cur.deleted = True
        elif ln.startswith(b"rename from "):
            cur.rename_from = _unquote(ln[len(b"rename from "):])
        elif ln.startswith(b"rename to "):
            cur.rename_to = _unquote(ln[len(b"rename to "):])
        elif ln.startswith(b"Binary files "):
            cur.binary = True
        elif ln.startswith(b"--- ") and cur.hunks == 0 and i + 1 < n and lines[i + 1].startswith(b"+++ "):
            a = _unquote(ln[4:])
            b = _unquote(lines[i + 1][4:])
            cur.old_path = None if a == b"/dev/null" else a[2:] if a[:2] in (b"a/",) else a
            cur.new_path = None if b == b"/dev/null" else b[2:] if b[:2] in (b"b/",) else b
            i += 2
            continue
        else:
            m = HUNK_RE.match(ln)
            if m:
                cur.hunks += 1
                old = int(m.group(1))
                oldn = 1 if m.group(2) is None else int(m.group(2))
                new = int(m.group(3))
                newn = 1 if m.group(4) is None else int(m.group(4))
                if oldn == 0:
                    old += 1      # "-k,0" means "after old line k"
                if newn == 0:
                    new += 1
                i += 1
                seen_old = seen_new = 0
                g = None
                while i < n and (seen_old < oldn or seen_new < newn or (i < n and lines[i].startswith(b"\\"))):
                    l = lines[i]
                    c = l[:1]
                    if c == b"\\":
                        i += 1
                        continue
                    if c == b"-":
                        if g is None:
                            g = Group(new)
                            cur.groups.append(g)
                        g.removed.append(old)
                        g.removed_text.append(l[1:])
                        old += 1
                        seen_old += 1
                    elif c == b"+":
                        if g is None:
                            g = Group(new)
                            cur.groups.append(g)
                        g.added.append(new)
                        g.added_text.append(l[1:])
                        new += 1
                        seen_new += 1
                    else:
                        g = None
                        old += 1
                        new += 1
                        seen_old += 1
                        seen_new += 1
                    i += 1
                continue
        i += 1
    for f in files:
        if f.new_path is None and f.rename_to is not None:
            f.new_path = f.rename_to
        if f.old_path is None and f.rename_from is not None:
            f.old_path = f.rename_from
    return files
