"""Batches of independent, uniquely named blocks in one file, run by one process, each block
judged against a reference model. Used by C06-C09 (simple layout: every tag in its own line
comment, content on its own lines) so that 10^5-10^6 blocks cost seconds."""
import re

from . import run
from .core import Case, HELD, VIOLATED, INCONCLUSIVE, h
from .fb import render_attrs

MSG_RE = re.compile(r"^Block (.+?):(\S+) (?:defined )?at line (\d+)")


class Acc:
    """Per-job accumulator: held cases are folded into one bulk Case (so that 10^6 blocks do not
    have to be pickled one by one); violations stay individual."""

    def __init__(self):
        self.keys, self.nt_keys = set(), set()
        self.counters, self.sets = {}, {}
        self.sample = None
        self.bad = []
        self.cases = 0
        self.evals = 0

    def add(self, c):
        self.cases += 1
        self.evals += c.evals
        if c.status != HELD:
            self.bad.append(c)
            if c.status == VIOLATED and c.key:
                self.keys.add(c.key)
                if c.nontrivial:
                    self.nt_keys.add(c.key)
            return
        self.keys.add(c.key)
        if c.nontrivial:
            self.nt_keys.add(c.key)
        for k, v in c.counters.items():
            self.counters[k] = self.counters.get(k, 0) + v
        for k, v in c.sets.items():
            self.sets.setdefault(k, set()).update(v)
        if c.sample is not None and (self.sample is None):
            self.sample = c.sample

    def to_cases(self, jobkey):
        out = list(self.bad)
        nheld = self.cases - len(self.bad)
        if nheld:
            bad_keys = {c.key for c in self.bad if c.status == VIOLATED}
            out.append(Case(HELD, key=jobkey, nontrivial=False, evals=self.evals - sum(c.evals for c in self.bad),
                            counters=self.counters, sets={k: sorted(v) for k, v in self.sets.items()},
                            sample=self.sample,
                            bulk={"cases": nheld, "distinct": len(self.keys - bad_keys),
                                  "nontrivial": len(self.nt_keys - bad_keys)}))
        return out


class BBlock:
    __slots__ = ("name", "attrs", "lines", "tag_line", "content", "expect", "desc", "inline_first", "inline_last", "first_offset")

    def __init__(self, attrs, lines, desc=None, inline_first=None, inline_last=None):
        self.attrs, self.lines, self.desc, self.inline_first, self.inline_last = attrs, lines, desc, inline_first, inline_last
        self.first_offset = 0
        self.name = None
        self.tag_line = None
        self.content = None
        self.expect = None


def build_file(blocks, style="hash", eol="\n", prefix="b"):
    """style hash: `# <block ...>` (Python); style c: `/* <block ...> */` + `// </block>` (JavaScript),
    where inline_first puts the first content line on the tag's own line."""
    out = []
    line = 1
    for i, b in enumerate(blocks):
        b.name = "%s%d" % (prefix, i)
        attrs = [("name", b.name)] + list(b.attrs)
        body = render_attrs(attrs)
        if style == "hash":
            tag = "# <block %s>" % body
            end = "# </block>"
            first = ""
        elif style == "cm":
            # the start tag's comment goes on for two more lines: content line 0 is the rest of the comment's *last* line
            tag = "/* <block %s>" % body + eol + "   the comment continues," + eol + "   one line per sentence. */"
            end = "// </block>"
            first = b.inline_first or ""
        else:
            tag = "/* <block %s> */" % body
            end = "// </block>"
            first = b.inline_first or ""
        b.tag_line = line
        b.first_offset = len(tag.encode("utf-8"))
        if style == "cm":
            b.tag_line = line + 2          # line of content line 0 (positions of keys count from there)
            b.first_offset = len("   one line per sentence. */")
            line += 2
        out.append(tag + first + eol)
        line += 1
        for ln in b.lines:
            out.append(ln + eol)
            line += 1
        if style != "hash" and b.inline_last is not None:
            # the last content line shares its line with the end-tag comment
            out.append(b.inline_last + " /* </block> */" + eol)
            b.content = first + eol + "".join(ln + eol for ln in b.lines) + b.inline_last + " "
        else:
            out.append(end + eol)
            b.content = first + eol + "".join(ln + eol for ln in b.lines)
        line += 1
    return "".join(out)


def run_batch(ctx, blocks, style, code, model, eol="\n", flavour="rel", check_positions=True, extra_env=None,
              sig_prefix="", nontrivial_fn=None, key_fn=None, sets_fn=None, prefix="b", ignore_codes=(), bom=False):
    """Run one batch and judge every block.

    model(block) -> None | dict(line_idx, key, c1, c2) for range validators, or dict(data=...) for
    line-count. Returns a list of Cases (one per block; violations carry a one-block witness)."""
    fname = "batch.py" if style == "hash" else "batch.js"      # styles c and cm: JavaScript
    text = build_file(blocks, style, eol, prefix)
    if bom and blocks:
        # UTF-8 byte order mark: three bytes that belong to line 1 (byte columns there move by 3) and to nothing else
        text = "\ufeff" + text
        if style != "cm":
            blocks[0].first_offset += 3
    root = run.make_repo({fname: text})
    env = {"BLOCKWATCH_TERMINAL_MODE": "1"}
    if extra_env:
        env.update(extra_env)
    try:
        res = run.run(ctx.bins[flavour], [], root, stdin=None, env=env, cpu_limit=60)
    finally:
        run.rm(root)
    lines = text.split(eol)
    cases = []
    if res.cls == "wall-timeout":
        return [Case(INCONCLUSIVE, key=h(text), summary="wall timeout on batch", evals=1)]
    diags = res.diagnostics() if res.err.strip() else {}
    if res.cls not in ("ok", "fail") or diags is None or (set(diags) - {fname}):
        return [Case(VIOLATED, key=h(text), nontrivial=True, sig="%s/batch-%s" % (sig_prefix, res.cls),
                     summary="batch of %d healthy-rule blocks ended %s: %s" % (len(blocks), res.cls, res.err_text()[:400]),
                     witness={"file": text[:6000], "observed": res.brief(2000)}, evals=1)]
    by_name = {}
    stray = []
    ignored_error = False
    for d in diags.get(fname, []):
        if d.get("code") in ignore_codes:
            if d.get("severity") == 1:
                ignored_error = True
            continue
        if d.get("code") != code:
            stray.append(d)
            continue
        m = MSG_RE.match(d.get("message", ""))
        if not m:
            stray.append(d)
            continue
        by_name.setdefault(m.group(2), []).append(d)
    if stray:
        return [Case(VIOLATED, key=h(text), nontrivial=True, sig="%s/stray-diagnostic" % sig_prefix,
                     summary="diagnostic with foreign code or unparsable message: %s" % str(stray[0])[:300],
                     witness={"file": text[:6000], "observed": res.brief(2000)}, evals=1)]
    any_error_expected = False
    for b in blocks:
        exp = model(b)
        got = by_name.pop(b.name, [])
        key = key_fn(b) if key_fn else h([b.attrs, b.lines, b.inline_first, b.inline_last, style, eol])
        nontriv = nontrivial_fn(b) if nontrivial_fn else len([l for l in b.lines if l.strip()]) >= 2
        sets = sets_fn(b, exp) if sets_fn else {}
        problem = None
        if exp is None:
            if got:
                problem = ("spurious", "unexpected %s diagnostic: %s" % (code, str(got[0])[:300]))
        else:
            sev_attr = dict(b.attrs).get("severity", "error").lower()
            if sev_attr == "error":
                any_error_expected = True
            if len(got) != 1:
                problem = ("missed" if not got else "duplicated",
                           "expected exactly one %s diagnostic, got %d" % (code, len(got)))
            else:
                d = got[0]
                rng_ = d.get("range", {})
                if "data" in exp:
                    if d.get("data") != exp["data"]:
                        problem = ("data", "data %s != expected %s" % (d.get("data"), exp["data"]))
                elif check_positions:
                    want_line = b.tag_line + exp["line_idx"]
                    off = b.first_offset if exp["line_idx"] == 0 else 0      # content line 0 starts after the tag's comment
                    c1, c2 = exp["c1"] + off, exp["c2"] + off
                    s, e = rng_.get("start", {}), rng_.get("end", {})
                    ok = (s.get("line") == want_line and e.get("line") == want_line
                          and s.get("character") == c1 and e.get("character") == c2)
                    if ok:
                        src = lines[want_line - 1].encode("utf-8")
                        ok = src[c1 - 1:c2].decode("utf-8", "replace") == exp["key"]
                    if not ok:
                        problem = ("wrong-key", "designates %s, expected line %d cols %d-%d (key %r)" % (
                            rng_, want_line, exp["c1"], exp["c2"], exp["key"]))
        if problem:
            one = build_file([_clone(b)], style, eol)
            b.first_offset = b.first_offset
            cases.append(Case(VIOLATED, key=key, nontrivial=nontriv, sig="%s/%s" % (sig_prefix, problem[0]),
                              summary="block %s: %s; attrs=%s lines=%r" % (b.name, problem[1], b.attrs, b.lines[:12]),
                              witness={"attrs": b.attrs, "lines": b.lines, "inline_first": b.inline_first, "file_starts_with_bom": bom,
                                       "single_block_file": one, "expected": exp, "got": got, "desc": b.desc},
                              evals=0, sets=sets))
        else:
            sample = None
            if exp is not None and len(b.lines) >= 2:
                sample = {"attrs": b.attrs, "lines": b.lines, "expected": exp, "observed": got[0]}
            cases.append(Case(HELD, key=key, nontrivial=nontriv, evals=0, sets=sets, sample=sample,
                              counters={"blocks": 1, "violating_blocks": 1 if exp is not None else 0}))
    if by_name:
        cases.append(Case(VIOLATED, key=h(text), nontrivial=True, sig="%s/unknown-block" % sig_prefix,
                          summary="diagnostics for blocks that do not exist: %s" % sorted(by_name)[:5],
                          witness={"file": text[:6000]}, evals=0))
    # exit status must follow the diagnostics
    want_rc = 1 if (any_error_expected or ignored_error) else 0
    if res.rc != want_rc and not any(c.status == VIOLATED for c in cases):
        cases.append(Case(VIOLATED, key=h(text), nontrivial=True, sig="%s/exit-status" % sig_prefix,
                          summary="exit %d but expected %d for this batch" % (res.rc, want_rc),
                          witness={"file": text[:6000], "observed": res.brief(1500)}, evals=0))
    if cases:
        cases[0].evals = 1
        cases[0].counters = dict(cases[0].counters or {}, processes=1)
    return cases


def _clone(b):
    return BBlock(list(b.attrs), list(b.lines), b.desc, b.inline_first, b.inline_last)
