"""Random well-nested source files with construction truth, for any registered language."""
from . import fb as fbm
from .langs import LANGS, CONTAINERS, NEST

PROSE_ASCII = ["note", "keep in sync", "see docs", "TODO later", "x y z", "section", "a=b", "100%", "it's", "q: \"w\""]
PROSE_MB = ["café", "日本語", "naïve — dash", "\U0001F600 ok", "über", "Δx"]
FOREIGN = ["<b>", "</b>", "<a href=x>", "<br/>", "<i>", "<blockquote>", "</blockquote>"]


class Opts:
    def __init__(self, **kw):
        self.max_depth = 3
        self.max_items = 5          # items per level
        self.p_block = 0.45
        self.decoys = True
        self.multibyte = False
        self.eol = "\n"
        self.layouts = ("own", "multi", "inline", "shared", "double")   # tag-comment layouts allowed
        self.forms = None           # restrict to form ids
        self.indent = True
        self.prose = True
        self.foreign = False
        self.attrs_fn = None        # (index) -> list[(name, value|None)]
        self.content_fn = None      # (rng, index, depth) -> list[str] content lines or None for default
        self.max_blocks = 12
        self.final_newline = True
        self.mltag = True           # layout "multi": some start tags have their attributes spread over several (decorated, indented) lines
        self.container = None       # "wrap": the items sit inside a class / function / element body; ("deep", n): inside n nested constructs
        self.filler_lines = 0       # ordinary code lines in front of everything (line numbers beyond 65535)
        self.long_prose = 0         # some comments carry this many characters of prose in front of their tag (columns beyond 65535)
        self.bom = False            # file starts with a UTF-8 byte order mark (3 bytes that count in line 1's byte columns)
        for k, v in kw.items():
            assert hasattr(self, k), k
            setattr(self, k, v)


class GenFile:
    def __init__(self, lang, fb, blocks, meta):
        self.lang, self.fb, self.blocks, self.meta = lang, fb, blocks, meta

    @property
    def data(self):
        return self.fb.text()


def _clean(text, form):
    for bad in form.forbid:
        text = text.replace(bad, " ")
    return text


def _spread(r, src, attrs, sep):
    if sep.strip() not in ("", "*"):
        return src      # banner style (` ** `): only the first star is decoration, the second would end up inside the tag
    """`<block a="1" b>` -> the same tag with a line break (sep = eol + indentation + decoration) in front of every attribute.
    Only done when the plain rendering can be recognised in src (no escapes), else src is returned unchanged."""
    for q in ('"', "'"):
        parts = [fbm.render_attrs([(k, (v if v != "" else None))], q) for k, v in attrs.items()]
        alt = [fbm.render_attrs([(k, v)], q) for k, v in attrs.items()]
        for ps in (parts, alt):
            if src == "<block " + " ".join(ps) + ">":
                return "<block" + sep + sep.join(ps) + (sep if r.random() < 0.3 else "") + ">"
    return src


def _prose(r, o, form):
    if not o.prose or r.random() < 0.4:
        return ""
    pool = PROSE_ASCII + (PROSE_MB if o.multibyte else [])
    t = r.choice(pool)
    if form.kind == "block" and form.family != "md" and r.random() < 0.04:
        t = t + " stray\rCR"       # a lone carriage return inside a block comment is a character, not a line break
    if o.long_prose and r.random() < 0.3:
        t = (t + " ") * (o.long_prose // (len(t) + 1) + 1)
    if o.foreign and r.random() < 0.4:
        t = t + " " + r.choice(FOREIGN)
    return _clean(t, form)


def render_for(form, alist):
    """Render a start tag so that it fits into the given comment form, or None if it cannot."""
    quote = "'" if '"' in form.forbid else '"'
    try:
        src, attrs = fbm.start_tag(alist, quote)
    except AssertionError:
        return None
    probe = src.replace("\\(", "").replace("\\)", "") if form.id.startswith("md-paren") else src    # escaped parentheses are legal in a (...) title
    if any(bad in probe for bad in form.forbid):
        return None
    if "\n" in src and form.kind == "line":
        return None
    return src, attrs


class _G:
    def __init__(self, r, lang, o):
        self.r, self.lang, self.o = r, lang, o
        self.b = fbm.FB(o.eol)
        self.nblocks = 0
        self.ndecoys = 0
        self.meta = {"layouts": set(), "forms": set(), "decoys": 0, "max_depth": 0, "nested": 0}
        forms = lang["forms"]
        if o.forms:
            forms = [f for f in forms if f.id in o.forms] or forms
        if isinstance(o.container, tuple):
            forms = [f for f in forms if not f.col0] or forms      # indented code cannot hold a comment form that must start in column 1
        self.forms = forms

    def indent(self, depth):
        if not (self.o.indent and self.lang["indent"]):
            return ""
        return self.r.choice(["", "  ", "    ", "\t"]) if self.r.random() < 0.5 else ""

    code_pool = None

    def code(self, depth):
        self.b.line_text(self.indent(depth) + self.r.choice(self.code_pool or self.lang["code"]))

    def decoy(self):
        if not self.lang["decoys"]:
            return self.code(0)
        self.ndecoys += 1
        # tree-sitter-c/cpp do not know a backslash-CRLF line continuation inside a string literal (recorded finding
        # C03/c-crlf-continuation, own witness): that decoy is only used in LF files
        d = self.r.choice([x for x in self.lang["decoys"] if not (self.o.eol == "\r\n" and "\\\n" in x)] or self.lang["decoys"])
        n = d.count("%d")
        text = (d % ((self.ndecoys,) * n)).replace("\n", self.o.eol)      # multi-line decoys use the file's line terminator
        self.meta["decoys"] += 1
        # record decoy tags (not in comments) so that truth knows they exist
        l0 = self.b.line
        self.b.line_text(text)
        self.meta.setdefault("decoy_spans", []).append((l0, self.b.line - 1))

    def attrs(self, idx):
        if self.o.attrs_fn:
            return self.o.attrs_fn(idx)
        return [("name", "b%d" % idx)]

    def ensure_blank(self):
        """Markdown link comments / HTML blocks need a blank line before them."""
        b = self.b
        if not b.at_line_start():
            b.nl()
        txt = b.text()
        if txt and not txt.endswith((b.eol * 2).encode()):
            b.nl()

    def tag_comment(self, form, pieces, layout, depth, trailing_code=None):
        """Write one comment holding the given tag pieces [(kind, src, attrs)], in a layout."""
        b, r, o = self.b, self.r, self.o
        if form.blank_around:
            self.ensure_blank()
        elif not b.at_line_start() and form.col0:
            b.nl()
        if b.at_line_start() and not form.col0:
            b.raw(self.indent(depth))
        b.open_comment(form)
        tags = []
        if form.kind == "block" and layout == "multi":
            # tag on line k of an n-line comment; continuation lines may be indented (spaces or tabs) in front of their decoration
            clead = r.choice(["", "", "", " ", "\t", "    ", "\t\t"]) if self.lang["indent"] else ""
            _nl = b.comment_nl
            b.comment_nl = lambda: _nl(clead)
            before = r.randint(0, 2)
            after = r.randint(0, 2)
            if before == 0 and after == 0:
                after = 1
            b.raw(" " + _prose(r, o, form))
            for _ in range(before):
                b.comment_nl()
                b.raw(_prose(r, o, form))
            if before:
                b.comment_nl()
                lead = _prose(r, o, form)
                if lead and r.random() < 0.5:
                    b.raw(lead + " ")       # text (possibly multi-byte) in front of the tag on its continuation line
            for i, (kind, src, attrs) in enumerate(pieces):
                if i:
                    b.raw(" " + _prose(r, o, form) + " ")
                if kind == "start" and o.mltag and attrs and r.random() < 0.35:
                    src = _spread(r, src, attrs, b.eol + clead + form.cont)
                tags.append(b.tag(kind, src, attrs))
            for _ in range(after):
                b.comment_nl()
                b.raw(_prose(r, o, form))
            if form.id.startswith("block") or form.id == "doc-block":
                b.comment_nl() if r.random() < 0.5 else b.raw(" ")
            else:
                b.raw(" ")
            del b.comment_nl
        else:
            pre = _prose(r, o, form)
            b.raw(" " + (pre + " " if pre else "")) if form.family != "md" else b.raw(pre + " " if pre else "")
            for i, (kind, src, attrs) in enumerate(pieces):
                if i:
                    b.raw(" " + _prose(r, o, form) + " ")
                tags.append(b.tag(kind, src, attrs))
            post = _prose(r, o, form)
            if form.family == "md":
                b.raw(" " + post if post else "")
            else:
                b.raw((" " + post if post else "") + (" " if form.kind == "block" else ""))
        b.close_comment()
        self.meta["layouts"].add(layout)
        self.meta["forms"].add(form.id)
        if trailing_code is not None:
            b.raw(" " + trailing_code + " ")
        else:
            b.nl()
            if form.blank_around:
                b.nl()
        return tags

    def pick_form(self, layout, family=None, alist=None):
        forms = self.forms
        if family:
            forms = [f for f in forms if f.family == family] or forms
        if alist is not None:
            forms = [f for f in forms if render_for(f, alist) is not None]
        if layout in ("multi",):
            cand = [f for f in forms if f.kind == "block"]
        elif layout == "inline":
            cand = [f for f in forms if f.trailing_code]
        else:
            cand = forms
        return self.r.choice(cand) if cand else None

    def block(self, depth):
        r, o = self.r, self.o
        idx = self.nblocks
        self.nblocks += 1
        self.meta["max_depth"] = max(self.meta["max_depth"], depth + 1)
        if depth:
            self.meta["nested"] += 1
        alist = self.attrs(idx)
        layout = r.choice(o.layouts)
        form = self.pick_form(layout, alist=alist)
        if form is None:
            layout = "own"
            form = self.pick_form("own", alist=alist)
        assert form is not None, "no comment form can hold these attributes"
        src, attrs = render_for(form, alist)
        if layout == "double":
            # two start tags in one comment (outer then inner, same line): the blocks nest and must be listed outer-first
            if depth + 1 >= o.max_depth + 1 or self.nblocks >= o.max_blocks:
                layout = "own"
            else:
                idx2 = self.nblocks
                alist2 = self.attrs(idx2)
                r2 = render_for(form, alist2)
                if r2 is None:
                    layout = "own"
                else:
                    self.nblocks += 1
                    self.meta["nested"] += 1
                    self.meta["max_depth"] = max(self.meta["max_depth"], depth + 2)
                    self.tag_comment(form, [("start", src, attrs), ("start", r2[0], r2[1])], "double", depth)
                    self.items(depth + 2)
                    if r.random() < 0.5:
                        self.tag_comment(form, [("end", fbm.END_TAG, None), ("end", fbm.END_TAG, None)], "double", depth)
                    else:
                        self.tag_comment(form, [("end", fbm.END_TAG, None)], "own", depth)
                        self.code(depth)
                        self.tag_comment(form, [("end", fbm.END_TAG, None)], "own", depth)
                    return
        if layout == "shared":
            # start and end tag in the same comment: empty block
            self.tag_comment(form, [("start", src, attrs), ("end", fbm.END_TAG, None)], "shared", depth)
            return
        if layout == "inline":
            code = r.choice(self.lang["code"])
            self.tag_comment(form, [("start", src, attrs)], "inline", depth, trailing_code=code)
            self.tag_comment(form, [("end", fbm.END_TAG, None)], "own", depth)
            return
        self.tag_comment(form, [("start", src, attrs)], layout, depth)
        lines = o.content_fn(r, idx, depth) if o.content_fn else None
        if lines is not None:
            for ln in lines:
                self.b.line_text(ln)
            # nested blocks still allowed after the fixed content
        else:
            self.items(depth + 1)
        end_layout = r.choice([l for l in o.layouts if l in ("own", "multi")] or ["own"])
        eform = self.pick_form(end_layout, family=form.family)
        if eform is None:
            end_layout, eform = "own", self.pick_form("own", family=form.family)
        self.tag_comment(eform, [("end", fbm.END_TAG, None)], end_layout, depth)

    def items(self, depth):
        r, o = self.r, self.o
        n = r.randint(0 if depth else 1, o.max_items)
        for _ in range(n):
            x = r.random()
            if x < o.p_block and depth < o.max_depth and self.nblocks < o.max_blocks:
                self.block(depth)
            elif x < o.p_block + 0.15 and o.decoys:
                self.decoy()
            elif x < o.p_block + 0.25 and o.prose:
                form = self.pick_form("own")
                if form.blank_around:
                    self.ensure_blank()
                if self.b.at_line_start() and not form.col0:
                    self.b.raw(self.indent(depth))
                self.b.open_comment(form)
                self.b.raw(" " + (_prose(r, o, form) or "plain") + (" " if form.kind == "block" and form.family != "md" else ""))
                self.b.close_comment()
                self.b.nl()
                if form.blank_around:
                    self.b.nl()
            else:
                self.code(depth)


def gen_file(r, lang_name, opts=None):
    lang = LANGS[lang_name]
    o = opts or Opts()
    g = _G(r, lang, o)
    if o.bom:
        g.b.raw("\ufeff")
    for ln in lang["prologue"]:
        g.b.line_text(ln)
    for k in range(o.filler_lines):
        g.b.line_text(lang["code"][k % len(lang["code"])])
    closers = []
    if o.container == "wrap" and CONTAINERS.get(lang_name):
        op, cl, members = r.choice(CONTAINERS[lang_name])
        g.b.line_text(op)
        closers = [cl]
        g.code_pool = members
        g.meta["layouts"].add("in-container")
    elif isinstance(o.container, tuple) and o.container[0] == "deep" and lang_name in NEST:
        wop, lop, lcl, wcl, unit = NEST[lang_name]
        n = o.container[1]
        if wop:
            g.b.line_text(wop)
        for d in range(n):
            g.b.line_text(unit * d + lop)
        closers = ([unit * d + lcl for d in reversed(range(n))] if lcl else []) + ([wcl] if wcl else [])
        g.b.start_prefix(unit * n)
        g.meta["layouts"].add("deep-%d" % n)
    g.items(0)
    if g.nblocks == 0:
        g.block(0)
    g.b.line_prefix = ""
    if not g.b.at_line_start():
        g.b.nl()
    for ln in closers:
        g.b.line_text(ln)
    for ln in lang["epilogue"]:
        g.b.line_text(ln)
    if not o.final_newline:
        # drop the final line terminator
        data = g.b.text()
        if data.endswith(o.eol.encode()):
            g.b.parts = [data[:-len(o.eol)]]
            g.b.off -= len(o.eol)
    blocks = g.b.blocks()
    meta = dict(g.meta)
    meta["layouts"] = sorted(meta["layouts"])
    meta["forms"] = sorted(meta["forms"])
    meta["blocks"] = len(blocks)
    return GenFile(lang_name, g.b, blocks, meta)
