"""Process runner: environment hygiene, resource limits, outcome classes, scratch repositories."""
import json
import os
import pty
import resource
import shutil
import signal
import subprocess
import tempfile
import time

_SCRATCH_ROOT = None
_COUNTER = [0]


def scratch_root():
    """Per-process scratch directory on tmpfs, outside /verif and /repo."""
    global _SCRATCH_ROOT
    if _SCRATCH_ROOT is None or not os.path.isdir(_SCRATCH_ROOT):
        base = os.environ.get("BWVERIF_SCRATCH")
        if not base:
            base = "/dev/shm" if os.path.isdir("/dev/shm") and os.access("/dev/shm", os.W_OK) else tempfile.gettempdir()
        top = os.path.join(base, "bwverif.%s" % os.environ.get("BWVERIF_MAINPID", str(os.getpid())))
        os.makedirs(top, exist_ok=True)
        _SCRATCH_ROOT = tempfile.mkdtemp(prefix="w%d." % os.getpid(), dir=top)
        home = os.path.join(_SCRATCH_ROOT, "home")
        os.makedirs(home, exist_ok=True)
        with open(os.path.join(home, ".gitconfig"), "w") as f:
            f.write("[user]\n\tname = v\n\temail = v@example.invalid\n[init]\n\tdefaultBranch = main\n"
                    "[core]\n\tautocrlf = false\n\tquotepath = true\n[advice]\n\tdetachedHead = false\n"
                    "[gc]\n\tauto = 0\n[commit]\n\tgpgsign = false\n[diff]\n\trenames = false\n")
    return _SCRATCH_ROOT


def scratch_top():
    scratch_root()
    return os.path.dirname(_SCRATCH_ROOT)


def fresh_dir(prefix="r"):
    _COUNTER[0] += 1
    d = os.path.join(scratch_root(), "%s%d" % (prefix, _COUNTER[0]))
    if os.path.exists(d):
        shutil.rmtree(d, ignore_errors=True)
    os.makedirs(d)
    return d


def clean_env(extra=None):
    root = scratch_root()
    env = {
        "PATH": "/usr/local/bin:/usr/bin:/bin",
        "HOME": os.path.join(root, "home"),
        "GIT_CONFIG_NOSYSTEM": "1",
        "GIT_TERMINAL_PROMPT": "0",
        "LC_ALL": "C.UTF-8",
        "TZ": "UTC",
    }
    if extra:
        env.update({k: v for k, v in extra.items() if v is not None})
        for k, v in extra.items():
            if v is None:
                env.pop(k, None)          # None = the variable is absent, also when it has a default above
    return env


class Result:
    __slots__ = ("rc", "out", "err", "cls", "cpu", "wall", "argv", "sig")

    def __init__(self, rc, out, err, cls, cpu, wall, argv, sig=None):
        self.rc, self.out, self.err, self.cls, self.cpu, self.wall, self.argv, self.sig = rc, out, err, cls, cpu, wall, argv, sig

    def err_text(self):
        return self.err.decode("utf-8", "replace")

    def out_text(self):
        return self.out.decode("utf-8", "replace")

    def diagnostics(self):
        """stderr parsed as the diagnostics JSON object, or None if it is not one."""
        try:
            v = json.loads(self.err_text())
        except Exception:
            return None
        return v if isinstance(v, dict) else None

    def listing(self):
        try:
            v = json.loads(self.out_text())
        except Exception:
            return None
        return v if isinstance(v, dict) else None

    def brief(self, n=600):
        return {"argv": self.argv, "rc": self.rc, "cls": self.cls,
                "stdout": self.out_text()[:n], "stderr": self.err_text()[:n]}


def classify(rc, err, cpu_limited=False, wall_timeout=False):
    """Outcome class of one execution."""
    if wall_timeout:
        return "wall-timeout"
    if cpu_limited:
        return "cpu-limit"
    if b"ERROR: AddressSanitizer" in err:
        return "asan"
    if b"WARNING: ThreadSanitizer" in err:
        return "tsan"
    if rc == 101 or b"panicked at" in err:
        return "panic"
    if rc < 0:
        return "signal"
    if rc == 134:
        return "abort"
    if rc == 0:
        return "ok"
    if rc == 1:
        return "fail"
    if rc == 2:
        return "usage"
    return "exit-%d" % rc


def run(binary, args, cwd, stdin=b"", env=None, cpu_limit=10, wall_limit=120, prefix=None, affinity=None, stdin_pauses=None,
        stdout_to=None):
    """Run the real binary once.

    stdin: bytes (piped, possibly empty = an empty diff), None (/dev/null), or "pty" (a real
    terminal on stdin, which is what "run interactively" means for blockwatch).
    Hangs are decided on CPU time (RLIMIT_CPU -> SIGXCPU/SIGKILL); the wall limit only guards the
    harness and yields the class "wall-timeout", which callers treat as inconclusive.
    stdin_pauses: [(offset, seconds)] - the piped stdin is written up to each offset, then the writer sleeps (a producer that is slow
    to start or pauses in the middle; the pipe stays open). stdout_to: path opened for writing as stdout (e.g. /dev/full).
    """
    argv = list(prefix or []) + [binary] + list(args)
    full_env = clean_env(env)
    t0 = time.time()
    master = slave = None
    if stdin == "pty":
        master, slave = pty.openpty()
        sin = slave
        data = None
    elif stdin is None:
        sin = subprocess.DEVNULL
        data = None
    else:
        sin = subprocess.PIPE
        data = stdin

    def pre():
        resource.setrlimit(resource.RLIMIT_CPU, (cpu_limit, cpu_limit + 1))
        resource.setrlimit(resource.RLIMIT_CORE, (0, 0))
        if affinity is not None:
            os.sched_setaffinity(0, affinity)

    r0 = resource.getrusage(resource.RUSAGE_CHILDREN)
    sout = open(stdout_to, "wb") if stdout_to else subprocess.PIPE
    proc = subprocess.Popen(argv, cwd=cwd, env=full_env, stdin=sin, stdout=sout,
                            stderr=subprocess.PIPE, preexec_fn=pre, close_fds=True)
    if stdout_to:
        sout.close()
    wall_timeout = False
    if stdin_pauses and data is not None:
        import threading

        pipe_in = proc.stdin
        proc.stdin = None         # the feeder thread owns stdin; communicate() only collects the outputs

        def feed(payload=data):
            pos = 0
            try:
                for off, secs in sorted(stdin_pauses):
                    pipe_in.write(payload[pos:off])
                    pipe_in.flush()
                    pos = off
                    time.sleep(secs)
                pipe_in.write(payload[pos:])
                pipe_in.close()
            except (BrokenPipeError, ValueError, OSError):
                pass
        threading.Thread(target=feed, daemon=True).start()
        data = None
    try:
        out, err = proc.communicate(data, timeout=wall_limit)
        out = out or b""
    except subprocess.TimeoutExpired:
        wall_timeout = True
        proc.kill()
        out, err = proc.communicate()
        out = out or b""
    finally:
        if master is not None:
            os.close(master)
            os.close(slave)
    r1 = resource.getrusage(resource.RUSAGE_CHILDREN)
    cpu = (r1.ru_utime + r1.ru_stime) - (r0.ru_utime + r0.ru_stime)
    rc = proc.returncode
    cpu_limited = rc in (-signal.SIGXCPU, -signal.SIGKILL) and cpu >= cpu_limit - 0.5 and not wall_timeout
    cls = classify(rc, err, cpu_limited, wall_timeout)
    return Result(rc, out, err, cls, cpu, time.time() - t0, [os.path.basename(binary)] + list(args))


def git(cwd, *args, stdin=None, check=True, env=None):
    p = subprocess.run(["git"] + list(args), cwd=cwd, env=clean_env(env), input=stdin,
                       stdout=subprocess.PIPE, stderr=subprocess.PIPE)
    if check and p.returncode not in (0,):
        raise RuntimeError("git %s failed (%d): %s" % (" ".join(args), p.returncode, p.stderr.decode("utf-8", "replace")))
    return p.stdout


def write_files(root, files):
    """files: {relative path: str|bytes}."""
    for rel, data in files.items():
        # a bytes key is a file name that is not valid UTF-8 (legal on Linux; git then quotes the path in its diffs)
        path = os.path.join(os.fsencode(root), rel) if isinstance(rel, bytes) else os.path.join(root, rel)
        d = os.path.dirname(path)
        if d and not os.path.isdir(d):
            os.makedirs(d, exist_ok=True)
        if isinstance(data, str):
            data = data.encode("utf-8")
        with open(path, "wb") as f:
            f.write(data)


def make_repo(files, real_git=False, commit=False, prefix="r"):
    """A scratch repository: `.git` is an empty directory (enough for blockwatch's root discovery
    and for the ignore crate) unless real_git is asked for."""
    root = fresh_dir(prefix)
    if real_git:
        git(root, "init", "-q", "--template=")
    else:
        os.makedirs(os.path.join(root, ".git"))
    write_files(root, files)
    if real_git and commit:
        git(root, "add", "-A")
        git(root, "commit", "-q", "--allow-empty", "-m", "base")
    return root


def rm(path):
    shutil.rmtree(path, ignore_errors=True)


def cleanup_all():
    global _SCRATCH_ROOT
    if _SCRATCH_ROOT and os.path.isdir(_SCRATCH_ROOT):
        shutil.rmtree(_SCRATCH_ROOT, ignore_errors=True)
    _SCRATCH_ROOT = None
