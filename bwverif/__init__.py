"""Runtime-monitoring harness for mennanov/blockwatch (see /verif/DESIGN.md)."""
