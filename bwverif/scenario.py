"""Multi-file, multi-validator scenarios with a known multiset of diagnostics (C11, C14, C20).

Every block has a unique name; its rules are drawn at random and the expected outcome of each rule
is computed by the reference models (C06-C09), by the Lua script chosen, or by the reply scripted
for the block's AI token. No malformed rules here: an `Err` is not a diagnostic.
"""
import re

from . import models
from .fb import render_attrs

SEVERITIES = [(None, 1), ("error", 1), ("ERROR", 1), ("warning", 2), ("Warning", 2), ("info", 3), ("INFO", 3), ("hint", 4), ("Hint", 4)]
WORDS = ["apple", "banana", "cherry", "date", "elder", "fig", "grape", "apple", "Banana", "10", "9", "2", "kiwi lime", "x1", "zeta"]
HOSTS = [("py", "#"), ("rb", "#"), ("sh", "#"), ("rs", "//"), ("go", "//"), ("js", "//"), ("sql", "--"), ("toml", "#")]
PATTERNS = [r"^[a-z]+$", r"^\w+$", r"[a-z]", r"^[a-z0-9 ]+$"]
MSG_RE = re.compile(r"^Block (.+?):(\S+) (?:defined )?at line (\d+)")
VALIDATORS = ["affects", "keep-sorted", "keep-unique", "line-pattern", "line-count", "check-ai", "check-lua"]


class SBlock:
    def __init__(self, name, attrs, lines, expected, ai_token=None, ai_reply=None, glued_to_prev=False):
        self.name, self.attrs, self.lines = name, attrs, lines
        self.glued_to_prev = glued_to_prev      # written into the previous block's comment line (two blocks starting on one line)
        self.expected = expected        # list of (code, severity number)
        self.ai_token, self.ai_reply = ai_token, ai_reply


class Scenario:
    def __init__(self):
        self.files = {}       # path -> text
        self.blocks = {}      # path -> [SBlock]
        self.expected = []    # (path, block name, code, severity number)
        self.ai = {}          # token -> reply text
        self.order = []       # file creation order

    def validators_active(self):
        return sorted({c for _, _, c, _ in self.expected})


def _content(lines, eol="\n"):
    return eol + "".join(l + eol for l in lines)


def gen_block(r, name, scripts, use_ai=True, use_lua=True, max_rules=4, force=None, bogus_severity=True):
    n = r.choice([0, 1, 2, 3, 5, 8])
    numeric_content = r.random() < 0.25
    if numeric_content:
        lines = [str(r.choice([1, 2, 3, 5, 8, 10, 10, 2.5, -1])) for _ in range(n)]
    else:
        lines = [r.choice(WORDS) for _ in range(n)]
    if r.random() < 0.6:
        lines = sorted(lines, key=(lambda s: float(s)) if numeric_content else None)
    for _ in range(r.choice([0, 0, 1])):
        lines.insert(r.randrange(len(lines) + 1), r.choice(["", "   "]))
    sev_attr, sev_num = r.choice(SEVERITIES)
    kinds = ["keep-sorted", "keep-unique", "line-pattern", "line-count"]
    if use_lua:
        kinds.append("check-lua")
    if use_ai:
        kinds.append("check-ai")
    chosen = force if force is not None else r.sample(kinds, r.randint(0, min(max_rules, len(kinds))))
    attrs = [("name", name)]
    expected = []
    content = _content(lines)
    ai_token = ai_reply = None
    for k in chosen:
        if k == "keep-sorted":
            d = r.choice(["asc", "desc", "", None, "ASC"])
            attrs.append(("keep-sorted", d))
            if numeric_content:
                attrs.append(("keep-sorted-format", "numeric"))
            if models.keep_sorted(content, d or "", None, numeric_content) is not None:
                expected.append(("keep-sorted", sev_num))
        elif k == "keep-unique":
            attrs.append(("keep-unique", None if r.random() < 0.5 else ""))
            if models.keep_unique(content) is not None:
                expected.append(("keep-unique", sev_num))
        elif k == "line-pattern":
            p = r.choice(PATTERNS)
            attrs.append(("line-pattern", p))
            if models.line_pattern(content, p) is not None:
                expected.append(("line-pattern", sev_num))
        elif k == "line-count":
            e = "%s%d" % (r.choice(["<", "<=", "==", ">=", ">"]), r.choice([0, 1, 2, 3, 5]))
            attrs.append(("line-count", e))
            if models.line_count(content, e) is not None:
                expected.append(("line-count", sev_num))
        elif k == "check-lua":
            which = r.choice([k for k in ("const", "nil", "fresh", "slow") if k in scripts])
            attrs.append(("check-lua", scripts[which]))
            if which in ("const", "slow"):
                expected.append(("check-lua", sev_num))
        elif k == "check-ai":
            ai_token = "tok-" + name
            attrs.append(("check-ai", "condition " + ai_token))
            ai_reply = r.choice(["OK", "ok", "Ok.", "OK.", "not fine: " + ai_token, "No."])
            if ai_reply.lower() not in ("ok", "ok."):
                expected.append(("check-ai", sev_num))
    bogus = False
    if bogus_severity and not expected and force is None and r.random() < 0.12:
        # a block that owes no diagnostic may carry any severity text: the attribute is only read when a diagnostic is built
        attrs.append(("severity", r.choice(["critical", "fatal", "warn", ""])))
        bogus = True
    elif sev_attr is not None:
        attrs.append(("severity", sev_attr))
    sb = SBlock(name, attrs, lines, expected, ai_token, ai_reply)
    sb.bogus_severity = bogus
    return sb


def render_file(blocks, opener, eol="\n", filler=None):
    out = []
    line = 1
    for bi, b in enumerate(blocks):
        if b.glued_to_prev:
            continue
        if bi + 1 < len(blocks) and blocks[bi + 1].glued_to_prev:
            # two empty blocks opened and closed on one comment line
            nb = blocks[bi + 1]
            b.tag_line = nb.tag_line = line
            out.append("%s <block %s></block> <block %s></block>%s" % (opener, render_attrs(b.attrs), render_attrs(nb.attrs), eol))
            line += 1
            continue
        if filler:
            out.append(filler + eol)
            line += 1
        b.tag_line = line
        out.append("%s <block %s>%s" % (opener, render_attrs(b.attrs), eol))
        for l in b.lines:
            out.append(l + eol)
        out.append("%s </block>%s" % (opener, eol))
        line += len(b.lines) + 2
    return "".join(out)


def add_affects(r, s, p=0.35):
    """Gives some blocks (with content) an `affects` reference to a block that does not exist and
    returns a hand-written unified diff that adds the first content line of each of them, so that
    each owes exactly one `affects` violation. Files must be re-rendered by the caller (done here)."""
    diff = []
    # homonym: a satisfied cross-file link `affects="A:x"` while a block of another file B is also called x and is touched by the
    # same diff (block names are only unique per file; the reference names file A)
    forced = {}
    if len(s.order) >= 2 and r.random() < 0.5:
        pa, pb = r.sample(s.order, 2)
        ca = [b for b in s.blocks[pa] if b.lines and not b.glued_to_prev and not any(a == "affects" for a, _ in b.attrs)]
        cb = [b for b in s.blocks[pb] if b.lines and not b.glued_to_prev]
        if len(ca) >= 2 and cb:
            b, t = r.sample(ca, 2)
            u = r.choice(cb)
            old = u.name
            b.attrs.insert(1, ("affects", "%s:%s" % (pa, t.name)))
            u.name = t.name
            u.attrs = [(k, (t.name if k == "name" else v)) for k, v in u.attrs]
            s.expected = [((p, t.name, c, sv) if (p == pb and n == old) else (p, n, c, sv)) for p, n, c, sv in s.expected]
            forced = {pa: [b, t], pb: [u]}
    for path in s.order:
        blocks = s.blocks[path]
        touched = []
        for b in blocks:
            if b.lines and r.random() < p and not any(a == "affects" for a, _ in b.attrs) and not getattr(b, "bogus_severity", False):
                b.two_targets = r.random() < 0.3      # two unmodified targets: two diagnostics with the same range and code
                b.attrs.insert(1, ("affects", (":ghost-%s, :spectre-%s" % (b.name, b.name)) if b.two_targets else ":ghost-" + b.name))
                touched.append(b)
        # satisfied links: a block that refers to another block of the same file which the diff touches too (no violation owed);
        # the target keeps whatever rules it has
        linked = list(forced.get(path, []))
        cands = [b for b in blocks if b.lines and not b.glued_to_prev]
        for b in cands:
            if b not in touched and not any(a == "affects" for a, _ in b.attrs) and len(cands) >= 2 and r.random() < p * 0.6:
                t = r.choice([c for c in cands if c is not b])
                b.attrs.insert(1, ("affects", (":%s" % t.name) if r.random() < 0.5 else "%s:%s" % (path, t.name)))
                linked += [b, t]
        opener = s.files[path].split(" ", 1)[0]
        s.files[path] = render_file(blocks, opener)
        if not touched and not linked:
            continue
        diff.append("diff --git a/%s b/%s\n--- a/%s\n+++ b/%s\n" % (path, path, path, path))
        touched = [b for b in touched if not b.glued_to_prev]
        in_diff = [b for b in blocks if b in touched or b in linked]
        for k, b in enumerate(in_diff):
            n = b.tag_line + 1
            diff.append("@@ -%d,0 +%d,1 @@\n+%s\n" % (n - 1 - k, n, b.lines[0]))
            if b not in touched:
                continue
            sev = dict((a, v) for a, v in b.attrs).get("severity")
            sevn = {"error": 1, "warning": 2, "info": 3, "hint": 4}[(sev or "error").lower()]
            for _ in range(2 if b.two_targets else 1):
                b.expected.append(("affects", sevn))
                s.expected.append((path, b.name, "affects", sevn))
    return "".join(diff)


def gen_scenario(r, scripts, nfiles=None, use_ai=True, use_lua=True, dirs=True, min_blocks=1, max_blocks=8):
    s = Scenario()
    nfiles = nfiles or r.randint(1, 6)
    bi = 0
    prev = None
    for fi in range(nfiles):
        ext, opener = r.choice(HOSTS)
        d = r.choice(["", "", "src/", "docs/sub/", "a/", "b/", "vendor/chart.js/", "notes.md/"]) if dirs else ""      # directories may be named like files
        path = "%sf%d.%s" % (d, fi, ext)
        if dirs and prev and r.random() < 0.3:
            # same file name as the previous file, in another directory (e.g. f0.py and src/f0.py): a root-relative path must never
            # be resolved against the directory blockwatch was started in
            d2 = r.choice([x for x in ["", "src/", "docs/sub/", "a/", "b/"] if x != prev[0]])
            cand = "%sf%d.%s" % (d2, prev[1], prev[2])
            if cand not in s.files:
                ext, opener, path, d = prev[2], prev[3], cand, d2
        prev = (d, fi if path.endswith("f%d.%s" % (fi, ext)) else prev[1], ext, opener)
        blocks = []
        for _ in range(r.randint(min_blocks, max_blocks)):
            blocks.append(gen_block(r, "n%d" % bi, scripts, use_ai, use_lua))
            bi += 1
            if r.random() < 0.12:
                # a pair of rule-less blocks that start on the same source line (listing must keep both, in order)
                blocks.append(SBlock("n%d" % bi, [("name", "n%d" % bi)], [], []))
                blocks.append(SBlock("n%d" % (bi + 1), [("name", "n%d" % (bi + 1))], [], [], glued_to_prev=True))
                bi += 2
        s.files[path] = render_file(blocks, opener)
        s.blocks[path] = blocks
        s.order.append(path)
        for b in blocks:
            for code, sev in b.expected:
                s.expected.append((path, b.name, code, sev))
            if b.ai_token:
                s.ai[b.ai_token] = b.ai_reply
    return s


def ai_script(scenario, delays=None):
    """Reply function for fake_ai: finds the block token in the request body."""
    def script(req):
        raw = req.get("raw", "")
        for tok, reply in scenario.ai.items():
            if (tok + "\\n") in raw or (tok + '"') in raw or (tok + "\n") in raw:
                act = ("reply", reply)
                if delays and tok in delays:
                    act = ("delay", delays[tok], act)
                return act
        return ("reply", "UNSCRIPTED")
    return script


def observed_multiset(diags):
    """[(file, block name, code, severity)] from a parsed stderr object, or None if malformed."""
    out = []
    for f, lst in diags.items():
        if not isinstance(lst, list):
            return None
        for d in lst:
            if not isinstance(d, dict):
                return None
            m = MSG_RE.match(str(d.get("message", "")))
            out.append((f, m.group(2) if m else None, d.get("code"), d.get("severity")))
    return sorted(out, key=str)


def shape_problem(diags):
    """Checks `{root-relative path: [ {range, code, message, severity in 1..4, data?} ]}`."""
    if not isinstance(diags, dict):
        return "not an object"
    for f, lst in diags.items():
        if not isinstance(f, str) or f.startswith("/") or f.startswith("./"):
            return "key %r is not a root-relative path" % (f,)
        if not isinstance(lst, list) or not lst:
            return "value of %r is not a non-empty list" % f
        for d in lst:
            if not isinstance(d, dict):
                return "diagnostic is not an object"
            extra = set(d) - {"range", "code", "message", "severity", "data"}
            if extra:
                return "unexpected fields %s" % sorted(extra)
            for k in ("range", "code", "message", "severity"):
                if k not in d:
                    return "missing field %s" % k
            if d["severity"] not in (1, 2, 3, 4) or isinstance(d["severity"], bool):
                return "severity %r not in 1..4" % (d["severity"],)
            rg = d["range"]
            try:
                for side in ("start", "end"):
                    if not (isinstance(rg[side]["line"], int) and isinstance(rg[side]["character"], int)):
                        return "range.%s is not line/character integers" % side
            except Exception:
                return "malformed range"
            if not isinstance(d["code"], str) or not isinstance(d["message"], str):
                return "code/message not strings"
    return None
