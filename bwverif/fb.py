"""File builder with ground truth by construction.

Every tag the generator writes is recorded with byte offset, line, byte column, attribute map and
the extent of the enclosing comment; pairing with an explicit stack gives the expected blocks.
"""
import re


class Tag:
    __slots__ = ("kind", "off", "line", "col", "end_off", "end_line", "end_col", "attrs", "src",
                 "comment", "in_comment", "name")

    def __init__(self, **kw):
        for k in self.__slots__:
            setattr(self, k, kw.get(k))


class Comment:
    __slots__ = ("idx", "form", "start_off", "start_line", "start_col", "end_off", "end_line", "end_col", "family")

    def __init__(self, **kw):
        for k in self.__slots__:
            setattr(self, k, kw.get(k))


class Block:
    def __init__(self, start, end, depth):
        self.start, self.end, self.depth = start, end, depth
        self.attrs = start.attrs
        self.name = start.attrs.get("name", "(unnamed)")
        self.line, self.col = start.line, start.col

    # extents of the comments that hold the tags (1-based lines)
    @property
    def s1(self):
        return self.start.comment.start_line

    @property
    def s2(self):
        return self.start.comment.end_line

    @property
    def e1(self):
        return self.end.comment.start_line

    @property
    def e2(self):
        return self.end.comment.end_line

    def same_comment(self):
        return self.start.comment is self.end.comment


class FB:
    """Append-only text builder that tracks (byte offset, line, byte column)."""

    def __init__(self, eol="\n"):
        self.eol = eol
        self.parts = []
        self.off = 0
        self.line = 1
        self.col = 1
        self.tags = []
        self.comments = []
        self._cur = None

    line_prefix = ""       # when set, every line that starts after this point begins with these characters (indentation); the
                           # prefix is written as soon as a line starts, so that positions recorded afterwards include it

    def start_prefix(self, prefix):
        self.line_prefix = prefix
        if prefix and self.col == 1:
            self._plain(prefix)
            self._prefix_only = True

    def raw(self, text):
        if not text:
            return
        if self.line_prefix:
            pieces = text.split("\n")
            for k, piece in enumerate(pieces):
                last = k == len(pieces) - 1
                if piece or not last:
                    self._prefix_only = False
                self._plain(piece + ("" if last else "\n"))
                if not last:
                    self._plain(self.line_prefix)
                    self._prefix_only = True
            return
        self._prefix_only = False
        self._plain(text)

    def _plain(self, text):
        if not text:
            return
        b = text.encode("utf-8")
        self.parts.append(b)
        self.off += len(b)
        n = b.count(b"\n")
        if n:
            self.line += n
            self.col = len(b) - b.rfind(b"\n")
        else:
            self.col += len(b)

    def nl(self):
        self.raw(self.eol)

    def line_text(self, text):
        self.raw(text)
        self.nl()

    _prefix_only = False

    def at_line_start(self):
        return self.col == 1 or self._prefix_only

    # -- comments --------------------------------------------------------------------------
    def open_comment(self, form):
        assert self._cur is None
        c = Comment(idx=len(self.comments), form=form, start_off=self.off, start_line=self.line,
                    start_col=self.col, family=form.family)
        self.comments.append(c)
        self._cur = c
        self.raw(form.open.replace("\n", self.eol))      # an opener that spans lines (spliced `//` comment) uses the file's line terminator
        return c

    def close_comment(self):
        c = self._cur
        self.raw(c.form.close.replace("\n", self.eol))
        c.end_off, c.end_line, c.end_col = self.off, self.line, self.col
        self._cur = None
        return c

    def comment_nl(self, lead=""):
        """Line break inside a block comment, followed by (indentation and) the form's continuation decoration."""
        c = self._cur
        assert c is not None and c.form.kind == "block"
        self.nl()
        self.raw(lead + c.form.cont)

    def tag(self, kind, src, attrs=None, in_comment=None):
        """Write a tag's source text; src must start with '<' and end with '>'."""
        if in_comment is None:
            in_comment = self._cur is not None
        t = Tag(kind=kind, off=self.off, line=self.line, col=self.col, attrs=dict(attrs or {}), src=src,
                comment=self._cur, in_comment=in_comment)
        self.raw(src)
        t.end_off = self.off
        # position of the closing '>' (inclusive)
        t.end_line = self.line
        t.end_col = self.col - 1
        self.tags.append(t)
        return t

    def text(self):
        return b"".join(self.parts)

    # -- truth ------------------------------------------------------------------------------
    def blocks(self):
        """Expected blocks, in source order of their start tags. Raises ValueError if the tags
        written into comments do not balance (per pairing family)."""
        stacks = {}
        out = []
        for t in self.tags:
            if not t.in_comment:
                continue
            fam = t.comment.family
            st = stacks.setdefault(fam, [])
            if t.kind == "start":
                st.append(t)
            else:
                if not st:
                    raise ValueError("unbalanced end tag at line %d" % t.line)
                s = st.pop()
                out.append(Block(s, t, len(st)))
        for st in stacks.values():
            if st:
                raise ValueError("unclosed start tag at line %d" % st[-1].line)
        out.sort(key=lambda b: (b.start.line, b.start.col))
        return out

    def content_of(self, block):
        if block.same_comment():
            return b""
        return self.text()[block.start.comment.end_off:block.end.comment.start_off]


_WS = re.compile(r"\s")


def render_attrs(attrs, quote='"'):
    """Plain rendering: name="value" pairs separated by one space; bare when value is None."""
    out = []
    for k, v in attrs:
        if v is None:
            out.append(k)
        else:
            q = quote
            if q in v:
                q = "'" if q == '"' else '"'
            assert q not in v, (k, v)
            out.append("%s=%s%s%s" % (k, q, v, q))
    return " ".join(out)


def start_tag(attrs, quote='"'):
    """attrs: list of (name, value|None). Returns (source, attribute dict as blockwatch should see it)."""
    body = render_attrs(attrs, quote)
    src = "<block" + (" " + body if body else "") + ">"
    d = {}
    for k, v in attrs:
        d[k] = "" if v is None else v
    return src, d


END_TAG = "</block>"


def strip_one_newline(b):
    if b.startswith(b"\r\n"):
        return b[2:]
    if b.startswith(b"\n"):
        return b[1:]
    return b
