"""Recording fake of an OpenAI-compatible chat-completions endpoint (127.0.0.1:0, threaded).

Every request is recorded (method, path, headers, raw body, parsed JSON). The reply is scripted
per request by a `script(request) -> action` callable; actions cover normal replies and faults:

    ("reply", text)              200 with one choice carrying `text`
    ("status", code, body, ctype) arbitrary status with JSON or plain body
    ("raw200", body)             200 with an arbitrary body (invalid JSON, no choices, null content)
    ("truncate", text)           200, Content-Length larger than what is sent, then close
    ("close",)                   close the connection without answering
An optional ("delay", seconds, action) wraps any action.
"""
import json
import socket
import threading
import time
from http.server import BaseHTTPRequestHandler, ThreadingHTTPServer


def completion_body(text, model="m"):
    return json.dumps({
        "id": "chatcmpl-verif", "object": "chat.completion", "created": 1700000000, "model": model,
        "choices": [{"index": 0, "message": {"role": "assistant", "content": text}, "finish_reason": "stop"}],
        "usage": {"prompt_tokens": 1, "completion_tokens": 1, "total_tokens": 2},
    })


class _Handler(BaseHTTPRequestHandler):
    protocol_version = "HTTP/1.1"

    def log_message(self, *a):
        pass

    def _handle(self):
        srv = self.server
        n = int(self.headers.get("Content-Length") or 0)
        raw = self.rfile.read(n) if n else b""
        try:
            body = json.loads(raw.decode("utf-8"))
        except Exception:
            body = None
        req = {"method": self.command, "path": self.path, "headers": {k.lower(): v for k, v in self.headers.items()},
               "raw": raw.decode("utf-8", "replace"), "json": body, "t": time.time()}
        with srv.lock:
            # a request of an earlier session (a client that was still running when its case ended)
            # must not leak into the current recording
            stale = not self.path.startswith("/s%d/" % srv.session)
            if not stale:
                req["seq"] = len(srv.requests)
                srv.requests.append(req)
            script = srv.script
        if stale:
            self.close_connection = True
            return
        action = script(req) if script else ("reply", "OK")
        while action and action[0] == "delay":
            time.sleep(action[1])
            action = action[2]
        kind = action[0]
        model = (body or {}).get("model", "m") if isinstance(body, dict) else "m"
        if kind == "reply":
            self._send_reply(action[1], model, raw)
        elif kind == "status":
            ctype = action[3] if len(action) > 3 else "application/json"
            self._send(action[1], action[2].encode("utf-8"), ctype)
        elif kind == "raw200":
            self._send(200, action[1].encode("utf-8"), "application/json")
        elif kind == "truncate":
            data = completion_body(action[1], model).encode("utf-8")
            self.send_response(200)
            self.send_header("Content-Type", "application/json")
            self.send_header("Content-Length", str(len(data) + 200))
            self.send_header("Connection", "close")
            self.end_headers()
            self.wfile.write(data[: max(1, len(data) // 2)])
            self.wfile.flush()
            self.close_connection = True
            try:
                self.connection.shutdown(socket.SHUT_RDWR)
            except OSError:
                pass
        elif kind == "close":
            self.close_connection = True
            try:
                self.connection.shutdown(socket.SHUT_RDWR)
            except OSError:
                pass
        with srv.lock:
            req["answered"] = time.time()

    def _send_reply(self, text, model, raw):
        """An ordinary completion in one of several *equivalent* wire shapes (the reply means the same in all of them): the shape
        is a function of the request body, so a replayed case meets the same shape."""
        import hashlib
        shape = hashlib.sha256(raw).digest()[0] % 5
        with self.server.lock:
            self.server.shapes[shape] = self.server.shapes.get(shape, 0) + 1
        if shape == 0:
            return self._send(200, completion_body(text, model).encode("utf-8"), "application/json")
        obj = json.loads(completion_body(text, model))
        if shape in (1, 2):
            # every character of the document escaped / pretty-printed, unknown extra members, a charset parameter
            obj["system_fingerprint"] = "fp_verif"
            obj["service_tier"] = "default"
            obj["choices"][0]["logprobs"] = None
            obj["choices"][0]["message"]["refusal"] = None
            obj["choices"][0]["message"]["annotations"] = []
            data = json.dumps(obj, indent=2 if shape == 1 else None, ensure_ascii=True, sort_keys=(shape == 2))
            if shape == 1:
                data = data.replace(json.dumps(text), '"' + "".join("\\u%04x" % ord(c) if ord(c) < 0x10000 else c for c in text) + '"', 1)
                try:
                    if json.loads(data)["choices"][0]["message"]["content"] != text:
                        raise ValueError
                except Exception:
                    data = json.dumps(obj)
            return self._send(200, ("\n " + data + "\r\n").encode("utf-8"), "application/json; charset=utf-8")
        data = json.dumps(obj, ensure_ascii=False).encode("utf-8")
        if shape == 3:
            # chunked transfer coding, small chunks that split multi-byte characters
            self.send_response(200)
            self.send_header("Content-Type", "application/json")
            self.send_header("Transfer-Encoding", "chunked")
            self.end_headers()
            step = 7 + (len(raw) % 23)
            for i in range(0, len(data), step):
                part = data[i:i + step]
                self.wfile.write(b"%x\r\n" % len(part) + part + b"\r\n")
                self.wfile.flush()
            self.wfile.write(b"0\r\n\r\n")
            self.wfile.flush()
            return
        # shape 4: Content-Length body delivered in several writes with pauses between them
        self.send_response(200)
        self.send_header("Content-Type", "application/json")
        self.send_header("Content-Length", str(len(data)))
        self.end_headers()
        cut = max(1, len(data) // 3)
        for i in range(0, len(data), cut):
            self.wfile.write(data[i:i + cut])
            self.wfile.flush()
            time.sleep(0.01)

    def _send(self, code, data, ctype):
        self.send_response(code)
        self.send_header("Content-Type", ctype)
        self.send_header("Content-Length", str(len(data)))
        self.end_headers()
        self.wfile.write(data)
        self.wfile.flush()

    do_POST = _handle
    do_GET = _handle
    do_PUT = _handle


class _Server(ThreadingHTTPServer):
    # a wide repository opens a few hundred connections at once; the default listen backlog (5) would drop SYNs on a loaded
    # machine and the client would report a connection timeout that has nothing to do with blockwatch
    request_queue_size = 2048

    def handle_error(self, request, client_address):
        pass     # clients that exit mid-reply (fault runs) are expected


class FakeAI:
    def __init__(self):
        self.httpd = _Server(("127.0.0.1", 0), _Handler)
        self.httpd.daemon_threads = True
        self.httpd.requests = []
        self.httpd.lock = threading.Lock()
        self.httpd.script = None
        self.httpd.session = 0
        self.httpd.shapes = {}
        self.thread = threading.Thread(target=self.httpd.serve_forever, kwargs={"poll_interval": 0.05}, daemon=True)
        self.thread.start()

    @property
    def url(self):
        return "http://127.0.0.1:%d/s%d/v1" % (self.httpd.server_address[1], self.httpd.session)

    def begin(self, script=None):
        """Start a recording session: clears the log and installs the reply script."""
        with self.httpd.lock:
            self.httpd.session += 1
            self.httpd.requests = []
            self.httpd.script = script

    def requests(self):
        with self.httpd.lock:
            return list(self.httpd.requests)

    def shapes(self):
        """How many ordinary replies went out in each wire shape (0 plain, 1 escaped+pretty, 2 extra members, 3 chunked, 4 split)."""
        with self.httpd.lock:
            return dict(self.httpd.shapes)

    def env(self, key="k-verif", model="verif-model"):
        e = {"BLOCKWATCH_AI_API_URL": self.url}
        if key is not None:
            e["BLOCKWATCH_AI_API_KEY"] = key
        if model is not None:
            e["BLOCKWATCH_AI_MODEL"] = model
        return e


_INSTANCE = None


def instance():
    """One server per worker process, started lazily."""
    global _INSTANCE
    if _INSTANCE is None:
        _INSTANCE = FakeAI()
    return _INSTANCE


def closed_port_url():
    """A URL on which nothing listens (connection refused)."""
    s = socket.socket()
    s.bind(("127.0.0.1", 0))
    port = s.getsockname()[1]
    s.close()
    return "http://127.0.0.1:%d/v1" % port


def user_message(req):
    body = req.get("json") or {}
    for m in body.get("messages", []) if isinstance(body, dict) else []:
        if isinstance(m, dict) and m.get("role") == "user":
            c = m.get("content")
            if isinstance(c, str):
                return c
            if isinstance(c, list):
                return "".join(p.get("text", "") for p in c if isinstance(p, dict))
    return None
