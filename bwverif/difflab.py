"""Pairs of repository states with construction truth, edit scripts and git-produced diffs (C01, C02)."""
import os

from . import gen, langs, run, udiff

# languages whose comments survive arbitrary *statement-level* line edits (no Markdown: its link
# comments need blank lines around them, which line edits would destroy; Kotlin: known finding)
# (no Swift either: tree-sitter-swift occasionally swallows later comments depending on byte lengths earlier in the file -
# recorded C03 finding `swift-comments-swallowed`; such a file would be blamed on the wrong property here)
SAFE_SUFFIXES = ["py", "rs", "js", "ts", "c", "cpp", "go", "java", "sql", "sh", "rb", "toml", "css", "cs", "php", "h", "tsx", "jsx"]


class FileState:
    """One generated file: lines (bytes, without terminator), blocks with tag-line extents."""

    def __init__(self, path, suffix, lines, eol, blocks, tag_lines, final_newline=True):
        self.path, self.suffix, self.lines, self.eol = path, suffix, lines, eol
        self.blocks = blocks          # list of BlockInfo (1-based line extents in *this* state)
        self.tag_lines = tag_lines    # set of 1-based line numbers that belong to a tag comment
        self.final_newline = final_newline

    def data(self):
        body = self.eol.encode().join(self.lines)
        return body + (self.eol.encode() if self.final_newline and self.lines else b"")


class BlockInfo:
    __slots__ = ("name", "attrs", "ids", "depth", "s1", "s2", "e1", "e2", "tag_line", "tag_col", "same_comment", "uid")

    def __init__(self, **kw):
        for k in self.__slots__:
            setattr(self, k, kw.get(k))


def gen_state(r, path, suffix, name_prefix, affects_fn=None, layouts=("own", "own", "own", "multi"), max_blocks=6, eol=None,
              dup_rate=0.0, sentinel=False):
    """A file plus per-line identities: returns (FileState, line ids). Every line gets a unique id so that
    the same block can be located in the edited state."""
    lang = langs.SUFFIX_LANG[suffix]
    counter = [0]

    def attrs(idx):
        # duplicate names: a later block may reuse the name of an earlier one
        k = idx if (idx == 0 or r.random() >= dup_rate) else r.randrange(idx)
        a = [("name", "%s%d" % (name_prefix, k))]
        if affects_fn:
            v = affects_fn(idx)
            if v:
                a.append(("affects", v))
        return a

    def content(rr, idx, depth):
        return None

    o = gen.Opts(layouts=layouts, max_depth=2, max_blocks=max_blocks, max_items=5, decoys=True, prose=True,
                 eol=eol or r.choice(["\n", "\n", "\n", "\r\n"]), attrs_fn=attrs, multibyte=r.random() < 0.2,
                 filler_lines=(66000 if r.random() < 0.03 else 0),       # now and then every block sits beyond line 65,536
                 final_newline=r.random() < 0.75)      # some files end without a line terminator (git: `\ No newline at end of file`)
    g = gen.gen_file(r, lang, o)
    text = g.data
    e = o.eol.encode()
    lines = text.split(e)
    final_newline = text.endswith(e)
    if final_newline:
        lines = lines[:-1]
    # make ordinary lines unique (appending a language-neutral marker would break code, so uniqueness is
    # obtained by inserting extra distinct code lines later; here we only record structure)
    tag_lines = set()
    blocks = []
    for i, b in enumerate(g.blocks):
        for ln in range(b.s1, b.s2 + 1):
            tag_lines.add(ln)
        for ln in range(b.e1, b.e2 + 1):
            tag_lines.add(ln)
        blocks.append(BlockInfo(name=b.name, attrs=dict(b.attrs), depth=b.depth, s1=b.s1, s2=b.s2, e1=b.e1, e2=b.e2,
                                tag_line=b.line, tag_col=b.col, same_comment=b.same_comment(), uid=i))
    if sentinel:
        # a block of its own at the top of the file that always owes a warning-severity line-count diagnostic when it is
        # validated: a second validator reporting on the same file (its three lines are protected from edits)
        form = [f for f in langs.LANGS[lang]["forms"] if not f.col0][0]
        K = len(langs.LANGS[lang]["prologue"])
        close = (" " + form.close) if form.close else ""
        sl = [("%s <block name=\"%ssentinel\" line-count=\"<1\" severity=\"warning\">%s" % (form.open, name_prefix, close)).encode(),
              langs.LANGS[lang]["code"][0].encode(),
              ("%s </block>%s" % (form.open, close)).encode()]
        lines[K:K] = sl
        tag_lines = {ln + 3 if ln > K else ln for ln in tag_lines}
        for b in blocks:
            for fld in ("s1", "s2", "e1", "e2", "tag_line"):
                v = getattr(b, fld)
                if v > K:
                    setattr(b, fld, v + 3)
        shifted_comments = [(c.start_line + (3 if c.start_line > K else 0), c.end_line + (3 if c.end_line > K else 0)) for c in g.fb.comments]
        sb = BlockInfo(name=name_prefix + "sentinel", attrs={"name": name_prefix + "sentinel", "line-count": "<1", "severity": "warning"},
                       depth=0, s1=K + 1, s2=K + 1, e1=K + 3, e2=K + 3, tag_line=K + 1, tag_col=len(form.open) + 2, same_comment=False, uid=-1)
        blocks.insert(0, sb)
        tag_lines |= {K + 1, K + 3}
    else:
        shifted_comments = [(c.start_line, c.end_line) for c in g.fb.comments]
        K = None
    # every line of a comment (tagged or not) is protected from edits: editing inside a multi-line comment could
    # comment tags in or out, which is a different experiment (C12)
    protected = set(tag_lines)
    for a, z in shifted_comments:
        for ln in range(a, z + 1):
            protected.add(ln)
    if sentinel:
        protected |= {K + 1, K + 2, K + 3}
    # multi-line string / heredoc decoys: deleting their first or last line would turn the decoy tag into a real comment
    for a, z in g.meta.get("decoy_spans", []):
        if z > a:
            for ln in range(a, z + 1):
                protected.add(ln + 3 if (sentinel and ln > K) else ln)
    L = langs.LANGS[lang]
    for k in range(len(L["prologue"])):
        protected.add(k + 1)          # e.g. `<?php`: deleting it would turn every comment into text
    for k in range(len(L["epilogue"])):
        protected.add(len(lines) - k)
    st = FileState(path, suffix, lines, o.eol, blocks, tag_lines, final_newline)
    st.protected = protected
    st.lang = lang
    return st


def new_line_text(r, lang, n):
    """A fresh, lexically inert line for the language (unique through the counter n)."""
    l = langs.LANGS[lang]
    base = r.choice(l["code"])
    form = l["forms"][0]
    if form.kind == "line":
        return "%s %s edit %d" % (base, form.open, n) if lang not in ("makefile",) else "%s edit %d" % (form.open, n)
    return "%s %s edit %d %s" % (base, form.open, n, form.close)


class Edit:
    """Line-level edit script applied to a FileState: ops never touch protected (comment) lines unless asked."""

    def __init__(self):
        self.ops = []


def apply_edits(r, st, nops, counter, hostile=False, prefer_boundaries=True):
    """Returns (new lines, mapping new index -> old index or None, list of op descriptions)."""
    n = len(st.lines)
    keep = [True] * n
    inserts = {}        # position (0..n) -> list of new lines inserted before old line index `position`
    ops = []
    free = [i for i in range(n) if (i + 1) not in st.protected]
    boundaries = set()
    for b in st.blocks:
        for ln in (b.s1 - 1, b.s2 + 1, b.e1 - 1, b.e2 + 1, 1, n):
            boundaries.add(ln)
    lang = st.lang
    modified = {}
    for _ in range(nops):
        kind = r.choice(["insert", "insert", "delete", "delete", "replace", "replace", "multi-delete", "multi-insert", "unequal-replace", "trailing-blanks"])
        if prefer_boundaries and r.random() < 0.5 and boundaries:
            target = r.choice(sorted(boundaries))
        else:
            target = r.randint(1, max(1, n))
        idx = min(max(target - 1, 0), max(n - 1, 0))

        def newl():
            counter[0] += 1
            if hostile and r.random() < 0.5:
                return hostile_line(r, lang, counter[0])
            return new_line_text(r, lang, counter[0]).encode("utf-8")

        if kind == "trailing-blanks":
            # the line keeps its text and only gains (or loses) blanks at its end: still an edit of that line
            if idx in free_set(free) and keep[idx] and idx not in modified:
                t = st.lines[idx]
                modified[idx] = t.rstrip(b" ") if t.endswith(b" ") else t + b"  "
                ops.append((kind, idx + 1, 1))
            continue
        if kind in ("insert", "multi-insert"):
            pos = r.choice([idx, idx + 1]) if n else 0
            k = 1 if kind == "insert" else r.randint(2, 4)
            # never split a multi-line comment: inserting between two protected lines of the same comment is avoided
            if 0 < pos < n and (pos in st.protected) and ((pos + 1) in st.protected) and _same_comment(st, pos, pos + 1):
                continue
            inserts.setdefault(pos, []).extend(newl() for _ in range(k))
            ops.append((kind, pos + 1, k))
        elif kind in ("delete", "multi-delete"):
            k = 1 if kind == "delete" else r.randint(2, 3)
            cand = [i for i in range(idx, min(n, idx + k)) if i in free_set(free)]
            for i in cand:
                keep[i] = False
            if cand:
                ops.append((kind, cand[0] + 1, len(cand)))
        else:
            k_old = 1 if kind == "replace" else r.randint(1, 3)
            k_new = 1 if kind == "replace" else r.choice([x for x in (1, 2, 3) if x != k_old])
            cand = [i for i in range(idx, min(n, idx + k_old)) if i in free_set(free)]
            if not cand:
                continue
            for i in cand:
                keep[i] = False
            inserts.setdefault(cand[0], []).extend(newl() for _ in range(k_new))
            ops.append((kind, cand[0] + 1, (len(cand), k_new)))
    # an in-line edit of one block's end-tag line (words appended inside the comment, after the tag): the line keeps its identity;
    # a change of the end-tag line alone says nothing about the block, together with a content change the block is modified as usual
    if st.blocks and r.random() < 0.3:
        b = r.choice(st.blocks)
        i = b.e1 - 1
        if b.e1 == b.e2 and not b.same_comment and 0 <= i < n and keep[i] and not (st.lines[i].rstrip().endswith((b")", b'"'))):
            counter[0] += 1
            ts = st.lines[i].rstrip()
            for closer in (b"*/", b"-->"):
                if ts.endswith(closer):
                    modified[i] = ts[:-len(closer)] + (b"rev%d " % counter[0]) + closer
                    break
            else:
                modified[i] = ts + (b" rev%d" % counter[0])
            ops.append(("end-tag-words", i + 1, 1))
    new_lines, origin = [], []
    for i in range(n + 1):
        for t in inserts.get(i, []):
            new_lines.append(t)
            origin.append(None)
        if i < n and keep[i]:
            new_lines.append(modified.get(i, st.lines[i]))
            origin.append(i)
    return new_lines, origin, ops


_FS = {}


def free_set(free):
    k = id(free)
    if k not in _FS or _FS[k][0] is not free:
        _FS.clear()
        _FS[k] = (free, set(free))
    return _FS[k][1]


def _same_comment(st, a, b):
    # conservative: two adjacent protected lines are treated as one comment unless both are single-line tag comments
    return True


def hostile_line(r, lang, n):
    """Lines whose diff rendering starts with '--- ' / '+++ ' and other awkward but valid text."""
    if lang == "sql":
        return ("-- note %d" % n).encode()
    if lang in ("c", "cpp", "java", "javascript", "typescript", "c_sharp", "tsx", "php", "swift"):
        return r.choice(["-- x%d;" % n, "++ x%d;" % n]).encode() if lang != "php" else ("-- $x%d;" % n).encode()
    return new_line_text(r, lang, n).encode("utf-8")


def relocate(st, new_lines, origin):
    """FileState of the edited file: blocks keep their identity through the origin map (tag lines are never
    deleted by apply_edits because they are protected)."""
    pos = {}
    for ni, oi in enumerate(origin):
        if oi is not None:
            pos[oi + 1] = ni + 1
    blocks = []
    tag_lines = set()
    for b in st.blocks:
        nb = BlockInfo(name=b.name, attrs=b.attrs, depth=b.depth, s1=pos[b.s1], s2=pos[b.s2], e1=pos[b.e1], e2=pos[b.e2],
                       tag_line=pos[b.tag_line], tag_col=b.tag_col, same_comment=b.same_comment, uid=b.uid)
        blocks.append(nb)
    for ln in st.tag_lines:
        tag_lines.add(pos[ln])
    ns = FileState(st.path, st.suffix, new_lines, st.eol, blocks, tag_lines, st.final_newline)
    ns.protected = {pos[ln] for ln in st.protected}
    ns.lang = st.lang
    return ns


GIT_VARIANTS = ["worktree", "worktree", "cached", "commits", "worktree-M"]


def git_diff(r, root, variant, ctxw, extra=()):
    args = ["-U%d" % ctxw] + list(extra)
    if variant == "worktree":
        return run.git(root, "diff", *args)
    if variant == "worktree-M":
        return run.git(root, "diff", "-M", *args)
    if variant == "cached":
        run.git(root, "add", "-A")
        return run.git(root, "diff", "--cached", "-M", *args)
    run.git(root, "add", "-A")
    run.git(root, "commit", "-q", "--allow-empty", "-m", "b")
    return run.git(root, "diff", "-M", *(args + ["HEAD~1", "HEAD"]))


def check_udiff(old_lines, new_lines, fd):
    """Self-check of the reference interpreter: applying the groups to the old file must give the new file."""
    out = []
    oi = 0
    for g in fd.groups:
        first_old = g.removed[0] if g.removed else None
        # copy unchanged lines up to the group
        upto = (first_old - 1) if first_old is not None else None
        if upto is None:
            # pure addition: group starts at new position g.pos; unchanged lines before it = g.pos - 1 - len(out)
            upto = oi + (g.pos - 1 - len(out))
        out.extend(old_lines[oi:upto])
        oi = upto + len(g.removed)
        out.extend(new_lines[len(out):len(out) + len(g.added)])
    out.extend(old_lines[oi:])
    return out == new_lines
