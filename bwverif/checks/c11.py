"""C11 - exit status and report follow the diagnostics and their severity."""
import json

from .. import fake_ai, run, scenario
from .common import (Case, HELD, VIOLATED, INCONCLUSIVE, TERM, bad_outcome, files_text, h, lua_script, rng, tsan_collect, tsan_env, endpoint_flake)

ID = "C11"
LEVEL = "exploration"
BUILDS = {"quick": ["rel"], "thorough": ["rel", "tsan"]}
OPTIONAL_BUILDS = ["tsan"]
BUDGET_S = {"quick": 600, "thorough": 1800}
RULE = ("Random repositories of 1-6 files (8 host languages, sub-directories) x 1-8 uniquely named blocks, each with 0-4 rules "
        "drawn from keep-sorted / keep-unique / line-pattern / line-count / check-lua / check-ai and a severity in "
        "{absent, error, warning, info, hint} in mixed case; the expected multiset of (file, block, code, severity) comes "
        "from the reference models, the Lua script chosen and the reply scripted per AI block. Each case is run in scan "
        "mode (or, half of them, in diff mode with `**` and `affects` references owing one or two violations each) and in `list` mode: exit status == (1 iff an error-severity diagnostic is expected), stderr is one JSON "
        "object of the documented shape with every expected diagnostic exactly once (nothing printed when none), `list` "
        "exits 0 with one JSON object naming exactly the blocks written. Non-trivial = >=2 validators reporting in one "
        "file and >=2 severities present; distinct = hash of the file set.")
ASSUMPTIONS = ["no malformed rules in these scenarios (an Err is not a diagnostic; C13 covers them)",
               "diagnostics are attributed to blocks through the block name in the message"]


def plan(tier, seed):
    n = 250 if tier == "quick" else 3000
    jobs = [{"i": i, "seed": seed, "n": 12, "flavour": "rel"} for i in range(n)]
    if tier == "thorough":
        jobs += [{"i": i, "seed": seed, "n": 4, "flavour": "tsan"} for i in range(60)]
    return jobs


def scripts():
    return {"const": lua_script("const.lua"), "nil": lua_script("nil.lua"), "fresh": lua_script("fresh.lua"), "slow": lua_script("slow.lua")}


def judge(ctx, s, flavour, desc, extra_env=None, diff=None):
    """Runs one scenario (scan + list, or diff + `**` when a diff is given) and returns a Case."""
    ai = fake_ai.instance()
    ai.begin(scenario.ai_script(s))
    env = {} if diff else dict(TERM)
    env.update(ai.env())
    if extra_env:
        env.update(extra_env)
    tsan_dir = None
    if flavour == "tsan":
        tsan_dir = run.fresh_dir("tsan")
        tsan_env(env, tsan_dir)
    root = run.make_repo(s.files)
    try:
        sin = diff.encode("utf-8") if diff else None
        extra = ["**"] if diff else []
        res = run.run(ctx.bins[flavour], extra, root, stdin=sin, env=env, cpu_limit=60)
        lst = run.run(ctx.bins[flavour], ["list"] + extra, root, stdin=sin, env=env, cpu_limit=60)
        # a report that cannot be delivered (stdout is a full device) must not end as a success
        full = run.run(ctx.bins[flavour], ["list"] + extra, root, stdin=sin, env=env, cpu_limit=60, stdout_to="/dev/full") if desc.get("j") == 0 and flavour == "rel" else None
    finally:
        run.rm(root)
    if full is not None and lst.cls == "ok" and (full.rc == 0 or bad_outcome(full)):
        return Case(VIOLATED, key=h([s.files, "stdout-full"]), nontrivial=True, sig="C11/list-undeliverable-report-%s" % full.cls, evals=3,
                    summary="`list` with stdout on /dev/full ended %s (exit %s): a listing that could not be written is not a success" % (full.cls, full.rc),
                    witness={"files": files_text(s.files, 1500), "observed": full.brief(800)})
    tsan_sigs, tsan_ignored = tsan_collect(tsan_dir) if tsan_dir else ([], 0)
    key = h(s.files)
    exp = sorted(s.expected, key=str)
    per_file = {}
    for f, b, c, sev in exp:
        per_file.setdefault(f, set()).add(c)
    sevs = {sev for _, _, _, sev in exp}
    nontrivial = any(len(v) >= 2 for v in per_file.values()) and len(sevs) >= 2
    want_rc = 1 if any(sev == 1 for _, _, _, sev in exp) else 0
    sets = {"validators_in_run": ["+".join(s.validators_active())], "severities": ["+".join(map(str, sorted(sevs)))],
            "exit": [str(want_rc)]}
    wit = {"files": files_text(s.files, 2500), "expected": exp, "ai_replies": s.ai, "desc": desc}

    def bad(sig, summary):
        return Case(VIOLATED, key=key, nontrivial=nontrivial, sig=sig, summary=summary, evals=2, sets=sets,
                    witness=dict(wit, observed={"run": res.brief(3000), "list": lst.brief(1500)}))

    if res.cls == "wall-timeout" or lst.cls == "wall-timeout" or endpoint_flake(res) or endpoint_flake(lst):
        return Case(INCONCLUSIVE, key=key, summary="wall timeout", evals=2)
    if tsan_sigs:
        return bad("C11/tsan/" + tsan_sigs[0], "ThreadSanitizer report(s) outside tokio's I/O driver: %s" % tsan_sigs[:3])
    if bad_outcome(res) or res.cls == "usage":
        return bad("C11/run-%s" % res.cls, "validation run ended %s: %s" % (res.cls, res.err_text()[:300]))
    err = res.err_text()
    if not exp:
        if res.rc != 0 or err.strip() or res.out.strip():
            return bad("C11/output-without-diagnostics", "no diagnostics expected but exit=%d stderr=%r stdout=%r" % (res.rc, err[:200], res.out_text()[:100]))
    else:
        try:
            diags = json.loads(err)
        except Exception:
            return bad("C11/stderr-not-json", "stderr is not one JSON value: %r" % err[:300])
        sp = scenario.shape_problem(diags)
        if sp:
            return bad("C11/shape", "stderr JSON has not the documented shape: %s" % sp)
        got = scenario.observed_multiset(diags)
        if got != exp:
            missing = [e for e in exp if e not in got]
            extra = list(got)
            for e in exp:
                if e in extra:
                    extra.remove(e)
            kind = "missing" if missing and not extra else "extra" if extra and not missing else "different"
            if not missing and extra and all(extra.count(x) >= 1 and x in exp for x in extra):
                kind = "duplicated"
            return bad("C11/diagnostics-%s" % kind, "diagnostics differ: missing %s, unexpected %s" % (missing[:4], extra[:4]))
        if res.rc != want_rc:
            return bad("C11/exit-%d-want-%d" % (res.rc, want_rc), "exit status %d but severities present are %s" % (res.rc, sorted(sevs)))
        if res.out.strip():
            return bad("C11/stdout-noise", "validation run printed on stdout: %r" % res.out_text()[:200])
    # list mode
    if lst.rc != 0 or lst.cls != "ok":
        return bad("C11/list-exit-%s" % lst.rc, "`list` ended %s: %s" % (lst.cls, lst.err_text()[:300]))
    listing = lst.listing()
    if listing is None:
        return bad("C11/list-not-json", "`list` stdout is not one JSON object: %r" % lst.out_text()[:200])
    want_list = {p: [b.name for b in bl] for p, bl in s.blocks.items() if bl}
    got_list = {p: [x.get("name") for x in v] for p, v in listing.items()}
    if got_list != want_list:
        return bad("C11/list-blocks", "`list` names %s, expected %s" % (str(got_list)[:300], str(want_list)[:300]))
    sample = None
    if nontrivial:
        sample = {"files": {p: t[:400] for p, t in list(s.files.items())[:2]}, "expected": exp[:8], "exit": res.rc}
    return Case(HELD, key=key, nontrivial=nontrivial, evals=2, sets=sets, sample=sample,
                counters={"diagnostics_matched": len(exp), "blocks": sum(len(b) for b in s.blocks.values()),
                          "runs_" + flavour: 2, "tsan_reports_filtered_tokio_io": tsan_ignored})


def run_job(job, ctx):
    fl = job["flavour"]
    if fl not in ctx.bins:
        return [Case(INCONCLUSIVE, key=h(job), summary="build %s unavailable" % fl, evals=0)]
    out = []
    sc = scripts()
    for j in range(job["n"]):
        r = rng("c11", job["seed"], job["i"], j, fl)
        if job["i"] % 25 == 7 and j == 0:
            s = scenario.gen_scenario(r, sc, nfiles=r.choice([70, 150, 300]), min_blocks=1, max_blocks=2)     # a wide repository
        else:
            s = scenario.gen_scenario(r, sc)
        diff = scenario.add_affects(r, s) if r.random() < 0.5 else None
        out.append(judge(ctx, s, fl, dict(job, j=j), diff=diff or None))
    return out


LEVEL_TEXT = ("Sampling: hundreds (quick) to ten thousand (thorough) generated repositories in which all six scan-mode "
              "validators report on the same files with mixed severities; the exit status, the JSON shape and the exact "
              "multiset of diagnostics are compared with an expectation computed independently (reference models, scripted "
              "Lua/AI verdicts). Thorough replays a slice under a ThreadSanitizer build.")
LEVEL_NOTE = "Trusted: reference models (validated by C06-C09), fake AI endpoint, constant Lua scripts."
TECHNIQUE = "runtime monitoring: construction-truth oracle over exit status + diagnostics multiset of generated multi-validator repositories (TSan slice)"
