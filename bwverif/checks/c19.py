"""C19 - check-ai: request is faithful, reply decides, endpoint faults fail closed.

Oracle: a recording fake endpoint inside the check process (bwverif.fake_ai). Every block's
condition carries a unique token; replies and faults are scripted per token.
"""
import json
import re

from .. import fake_ai, models, run
from ..fb import render_attrs
from .common import (Case, HELD, VIOLATED, INCONCLUSIVE, TERM, bad_outcome, diag_list, files_text, h, rng, endpoint_flake)

ID = "C19"
LEVEL = "fault_enumeration"
BUILDS = ["rel"]
BUDGET_S = {"quick": 600, "thorough": 2400}
RULE = ("1-12 AI blocks over 1-3 files; conditions and contents over quotes, backslashes, tabs, Unicode, emoji, JSON-looking "
        "text; optional check-ai-pattern; replies from {OK, ok, Ok., oK.} (no diagnostic) and a family of other texts incl. "
        "near misses (`OK!`, `OK..`, `Okay`, `O K`, multi-line, quoted, Unicode) that must be quoted verbatim in exactly one "
        "check-ai diagnostic. Fault runs inject one fault on one of the concurrent requests (answered first or last via "
        "delays): no key, empty key, connection refused, 400/401/403/404/422 with JSON or plain body, 200 with invalid JSON, "
        "200 without choices, 200 with null content, 200 without message, connection closed mid-body, connection closed "
        "without reply. Observed: the endpoint's request log (method, path, Authorization, model, messages), diagnostics, "
        "exit status. A case is one execution; non-trivial = >=2 concurrent requests or a fault; distinct = hash of (files, "
        "script of replies/faults).")
ASSUMPTIONS = ["429 and 5xx are excluded: the client library retries them with exponential backoff and the statement does not list them",
               "whitespace-padded `OK` replies and the empty reply are not generated (the statement does not decide them)"]

OK_REPLIES = ["OK", "ok", "Ok.", "oK.", "OK.", "Ok"]
BAD_REPLIES = ["OK!", "OK..", "Okay", "O K", "not ok", "OK, but rename x", "The block must mention \"banana\".", "line one\nline two",
               "ünïcödé \U0001F600", "{\"json\": true}", "back\\slash", "KO", "ok ok", "0", "No.", "OK?", "[OK]", "'OK'"]
FAULTS = ["no-key", "empty-key", "refused", "400-json", "400-plain", "401-json", "401-plain", "403-json", "404-json", "404-plain", "422-json",
          "200-invalid-json", "200-empty-body", "200-no-choices", "200-null-content", "200-null-content-refusal", "200-null-content-refusal-ok", "200-empty-content",
          "200-no-message", "200-not-object", "truncated", "closed"]
COND_PIECES = ["{block}", "{condition}", "{content} {}", "%s %d", "$1 \\1", "must mention", "no \"quotes\"", "back\\slash", "tab\there", "é日本", "\U0001F600", "{json}", "a<b", "100%", "x=y", "semi;", "it's"]
CONTENT_PIECES = ["{condition}", "{block}", "{} {0}", "alpha", "say \"hi\"", "c:\\path\\file", "tab\there", "naïve café", "日本語", "\U0001F468‍\U0001F469‍\U0001F467", "{\"k\": [1, 2]}",
                  "id: 42", "$x = 'y'", "<b>bold</b>", "a & b", "100%", "line", "\\n literal", "null", "end"]
PATTERNS = [None, None, None, r"(?P<value>\d+)", r"id: (\w+)", r"^nomatch$", r"(?s)alpha.*end", r"(?s).*", r"(?P<value>\s+\S+\s+)", r"\S+[ \t]+"]
ERR_JSON = json.dumps({"error": {"message": "scripted failure", "type": "invalid_request_error", "param": None, "code": "bad"}})


def plan(tier, seed):
    n = 200 if tier == "quick" else 3000
    jobs = [{"k": "replies", "i": i, "seed": seed, "n": 5} for i in range(n)]
    reps = 6 if tier == "quick" else 80
    for f in FAULTS:
        for rep in range(reps):
            jobs.append({"k": "fault", "fault": f, "rep": rep, "seed": seed})
    return jobs


class AB:
    pass


def expected_content(content, pattern):
    if pattern is None:
        return models.rust_trim(content)[0]
    m = re.search(pattern, content)
    if not m:
        return ""
    if "value" in m.re.groupindex and m.group("value") is not None:
        return m.group("value")
    return m.group(0)


def gen_case(r, nblocks=None):
    nfiles = r.randint(1, 3)
    nblocks = nblocks or r.choice([1, 2, 3, 5, 8, 12])
    per = [[] for _ in range(nfiles)]
    for bi in range(nblocks):
        per[r.randrange(nfiles)].append(bi)
    files, blocks = {}, []
    for fi in range(nfiles):
        if not per[fi]:
            continue
        path = "%sdoc%d.md" % (r.choice(["", "docs/", "a/b/"]), fi)
        out, line = [], 1
        for bi in per[fi]:
            b = AB()
            b.name, b.path, b.token = "A%d" % bi, path, "tok-%d-%d" % (bi, r.randrange(10 ** 6))
            cond = " ".join(r.choice(COND_PIECES) for _ in range(r.randint(1, 3))) + " " + b.token
            if r.random() < 0.3:
                cond = "  " + cond + "  "
            if '"' in cond and "'" in cond:
                cond = cond.replace("'", "\u2019")     # an attribute value cannot hold both quote characters
            b.condition = cond
            b.pattern = r.choice(PATTERNS)
            attrs = [("name", b.name), ("check-ai", cond)]
            if b.pattern is not None:
                attrs.append(("check-ai-pattern", b.pattern))
            if r.random() < 0.3:
                attrs.append(("severity", r.choice(["warning", "info"])))
                b.sev = {"warning": 2, "info": 3}[attrs[-1][1]]
            else:
                b.sev = 1
            r.shuffle(attrs)
            nl = r.choice([0, 1, 2, 4]) if r.random() > 0.03 else 2500      # now and then ~50 KB of content in the request
            lines = [" ".join(r.choice(CONTENT_PIECES) for _ in range(r.randint(1, 3))) for _ in range(nl)]
            if r.random() < 0.3:
                lines.insert(0, "  ")
            # blocks without check-ai in front of / around the check-ai block (they owe no diagnostic)
            wrap = False
            x = r.random()
            if x < 0.2:
                out.append('<!-- <block name="plain%d"> -->\nfree text\n<!-- </block> -->\n\n' % bi)
                line += 4
            elif x < 0.35:
                out.append('<!-- <block name="sorted%d" keep-sorted="asc"> -->\na\nb\n<!-- </block> -->\n\n' % bi)
                line += 5
            elif x < 0.45:
                out.append('<!-- <block name="outer%d"> -->\n\n' % bi)
                line += 2
                wrap = True
            b.tag_line = line
            out.append("<!-- <block %s> -->\n" % render_attrs(attrs))
            for l in lines:
                out.append(l + "\n")
            out.append("<!-- </block> -->\n\n")
            line += len(lines) + 3
            if wrap:
                out.append("<!-- </block> -->\n\n")
                line += 2
            b.content = "\n" + "".join(l + "\n" for l in lines)
            b.expected_content = expected_content(b.content, b.pattern)
            blocks.append(b)
        files[path] = "".join(out)
    return files, blocks


def fault_action(kind):
    return {
        "400-json": ("status", 400, ERR_JSON), "400-plain": ("status", 400, "bad request", "text/plain"),
        "401-json": ("status", 401, ERR_JSON), "401-plain": ("status", 401, "unauthorized", "text/plain"),
        "403-json": ("status", 403, ERR_JSON), "404-json": ("status", 404, ERR_JSON),
        "404-plain": ("status", 404, "<html>not found</html>", "text/html"), "422-json": ("status", 422, ERR_JSON),
        "200-invalid-json": ("raw200", "{\"id\": \"x\", \"choices\": [ this is not json"),
        "200-empty-body": ("raw200", ""),
        "200-no-choices": ("raw200", json.dumps({"id": "x", "object": "chat.completion", "created": 1, "model": "m", "choices": []})),
        "200-null-content": ("raw200", json.dumps({"id": "x", "object": "chat.completion", "created": 1, "model": "m",
                                                     "choices": [{"index": 0, "message": {"role": "assistant", "content": None}, "finish_reason": "stop"}]})),
        # no content, but a `refusal` text next to it (a sentence, or the very word OK): still an empty reply
        "200-null-content-refusal": ("raw200", json.dumps({"id": "x", "object": "chat.completion", "created": 1, "model": "m",
                                                             "choices": [{"index": 0, "message": {"role": "assistant", "content": None, "refusal": "I cannot help with that."}, "finish_reason": "stop"}]})),
        "200-null-content-refusal-ok": ("raw200", json.dumps({"id": "x", "object": "chat.completion", "created": 1, "model": "m",
                                                                "choices": [{"index": 0, "message": {"role": "assistant", "content": None, "refusal": "OK"}, "finish_reason": "stop"}]})),
        "200-empty-content": ("raw200", json.dumps({"id": "x", "object": "chat.completion", "created": 1, "model": "m",
                                                      "choices": [{"index": 0, "message": {"role": "assistant", "content": None, "tool_calls": []}, "finish_reason": "tool_calls"}]})),
        "200-no-message": ("raw200", json.dumps({"id": "x", "object": "chat.completion", "created": 1, "model": "m",
                                                   "choices": [{"index": 0, "finish_reason": "stop"}]})),
        "200-not-object": ("raw200", "[1, 2, 3]"),
        "truncated": ("truncate", "OK"), "closed": ("close",),
    }[kind]


def run_job(job, ctx):
    out = []
    if job["k"] == "replies":
        for j in range(job["n"]):
            r = rng("c19", job["seed"], job["i"], j)
            files, blocks = gen_case(r)
            for b in blocks:
                b.reply = r.choice(OK_REPLIES) if r.random() < 0.45 else r.choice(BAD_REPLIES)
                b.delay = r.choice([0, 0, 0.01, 0.05])
            out.append(execute(ctx, r, files, blocks, None, dict(job, j=j)))
    else:
        r = rng("c19f", job["seed"], job["fault"], job["rep"])
        files, blocks = gen_case(r, nblocks=r.choice([1, 2, 4, 8]))
        victim = r.choice(blocks)
        first = r.random() < 0.5
        for b in blocks:
            b.reply = r.choice(OK_REPLIES)      # without the fault the run would pass
            b.delay = (0.15 if first else 0.0) if b is not victim else (0.0 if first else 0.15)
        out.append(execute(ctx, r, files, blocks, (job["fault"], victim, first), job))
    return out


def execute(ctx, r, files, blocks, fault, desc):
    ai = fake_ai.instance()
    by_token = {b.token: b for b in blocks}

    def script(req):
        raw = req.get("raw", "")
        for tok, b in by_token.items():
            if tok in raw:
                act = ("reply", b.reply)
                if fault and fault[1] is b and fault[0] not in ("no-key", "empty-key", "refused"):
                    act = fault_action(fault[0])
                return ("delay", b.delay, act) if b.delay else act
        return ("reply", "UNSCRIPTED")

    ai.begin(script)
    key_val, model = "sk-" + h([desc])[:10], r.choice(["verif-model", "gpt-x", "m/ü", "a b"])
    env = dict(TERM)
    env.update(ai.env(key=key_val, model=model))
    fkind = fault[0] if fault else None
    if r.random() < 0.7:
        env["OPENAI_API_KEY"] = "sk-foreign-key-not-for-blockwatch"      # must never be picked up instead of BLOCKWATCH_AI_API_KEY
        env["OPENAI_BASE_URL"] = "http://127.0.0.1:9/none"
    if fkind == "no-key":
        del env["BLOCKWATCH_AI_API_KEY"]
    elif fkind == "empty-key":
        env["BLOCKWATCH_AI_API_KEY"] = ""
    elif fkind == "refused":
        env["BLOCKWATCH_AI_API_URL"] = fake_ai.closed_port_url()
    root = run.make_repo(files)
    shapes0 = ai.shapes()
    try:
        res = run.run(ctx.bin("rel"), [], root, stdin=None, env=env, cpu_limit=60, wall_limit=120)
    finally:
        run.rm(root)
    reqs = ai.requests()
    shapes1 = ai.shapes()
    # ordinary replies go out in five equivalent wire shapes (plain, escaped+pretty-printed, unknown extra members, chunked, split writes)
    wire = {k: shapes1[k] - shapes0.get(k, 0) for k in shapes1 if shapes1[k] - shapes0.get(k, 0) > 0}
    key = h([files, [(b.token, b.reply) for b in blocks], fkind, fault[1].name if fault else None, fault[2] if fault else None])
    nontrivial = len(blocks) >= 2 or fault is not None
    sets = {"fault": [fkind or "none"], "nblocks": [str(len(blocks))],
            "reply_wire_shape": ["plain escaped-pretty extra-members chunked split-writes".split()[k] for k in wire]}
    if fault:
        sets["fault_position"] = ["%s/%s" % (fkind, "answered-first" if fault[2] else "answered-last")]
    wit = {"files": files_text(files, 2500), "replies": {b.name: b.reply for b in blocks}, "fault": fkind,
           "victim": fault[1].name if fault else None, "desc": desc, "observed": res.brief(2500),
           "requests": [{"path": q["path"], "auth": q["headers"].get("authorization"), "body": q["raw"][:600]} for q in reqs[:6]]}

    def bad(sig, summary):
        return Case(VIOLATED, key=key, nontrivial=nontrivial, sig=sig, summary=summary, witness=wit, sets=sets)

    if res.cls == "wall-timeout" or (endpoint_flake(res) and (not fault or fault[0] not in ("refused", "closed", "truncated"))):
        return Case(INCONCLUSIVE, key=key, summary="wall timeout (fault %s)" % fkind)
    if bad_outcome(res):
        return bad("C19/run-%s/%s" % (res.cls, fkind), "run ended %s: %s" % (res.cls, res.err_text()[:300]))
    # requests per block
    per = {}
    for q in reqs:
        tok = next((t for t in by_token if t in q["raw"]), None)
        per.setdefault(tok, []).append(q)
    if None in per:
        return bad("C19/unattributable-request", "a request carries no block token: %s" % per[None][0]["raw"][:300])
    if fault:
        if res.rc == 0:
            return bad("C19/fault-passed/%s" % fkind, "exit 0 although the endpoint fault %s hit block %s (%s of %d requests)" % (
                fkind, fault[1].name, "first" if fault[2] else "last", len(blocks)))
        for tok, qs in per.items():
            if len(qs) > 1:
                return bad("C19/duplicate-request/%s" % fkind, "%d requests for block %s" % (len(qs), by_token[tok].name))
        if fkind in ("no-key", "empty-key") and reqs:
            pass   # not forbidden by the statement; recorded as a counter
        return Case(HELD, key=key, nontrivial=True, sets=sets, counters={"fault_runs": 1, "requests_seen": len(reqs)},
                    sample={"fault": fkind, "victim": fault[1].name, "blocks": len(blocks), "exit": res.rc, "stderr": res.err_text()[:200]})
    # ---- faithful request, exactly once ------------------------------------------------------
    for b in blocks:
        qs = per.get(b.token, [])
        if len(qs) != 1:
            return bad("C19/request-count-%d" % len(qs), "block %s: %d requests instead of exactly one" % (b.name, len(qs)))
        q = qs[0]
        if q["method"] != "POST" or not q["path"].endswith("/chat/completions"):
            return bad("C19/request-line", "request is %s %s" % (q["method"], q["path"]))
        if q["headers"].get("authorization") != "Bearer " + key_val:
            return bad("C19/authorization", "Authorization header %r, expected Bearer %s" % (q["headers"].get("authorization"), key_val))
        body = q["json"]
        if not isinstance(body, dict) or body.get("model") != model:
            return bad("C19/model", "model %r, expected %r" % ((body or {}).get("model") if isinstance(body, dict) else body, model))
        texts = []
        for m in body.get("messages", []):
            c = m.get("content") if isinstance(m, dict) else None
            if isinstance(c, str):
                texts.append(c)
            elif isinstance(c, list):
                texts.append("".join(p.get("text", "") for p in c if isinstance(p, dict)))
        if not any(b.condition in t for t in texts):
            return bad("C19/condition-not-verbatim", "condition %r not found verbatim in the request messages" % b.condition)
        if not any(b.expected_content in t and (b.expected_content != "" or True) for t in texts):
            return bad("C19/content-not-verbatim%s" % ("/pattern" if b.pattern else ""),
                       "content %r (pattern %r) not found verbatim in the request messages: %r" % (b.expected_content, b.pattern, texts[-1][:300]))
        # the untrimmed/unfiltered content must not be what was sent when a pattern or trimming applies
        if b.pattern is not None or b.content.strip() != b.content:
            um = [t for t in texts if b.condition in t]
            tail = um[0].split("BLOCK (formatting preserved):\n", 1)[-1] if um else ""
            if tail != b.expected_content and um and "BLOCK (formatting preserved):\n" in um[0]:
                return bad("C19/content-differs%s" % ("/pattern" if b.pattern else ""),
                           "block part of the request is %r, expected exactly %r" % (tail[:200], b.expected_content[:200]))
    # ---- reply decides ---------------------------------------------------------------------------
    dl = diag_list(res) if res.err.strip() else []
    if dl is None:
        return bad("C19/stderr-not-json", "stderr is not the diagnostics object: %s" % res.err_text()[:300])
    got = {}
    for f, d in dl:
        m = re.match(r"^Block (.+?):(\S+) ", d.get("message", ""))
        got.setdefault(m.group(2) if m else None, []).append((f, d))
    want_rc = 0
    for b in blocks:
        g = got.pop(b.name, [])
        is_ok = b.reply.lower() in ("ok", "ok.")
        if is_ok:
            if g:
                return bad("C19/diagnostic-for-OK", "reply %r must pass but block %s has a diagnostic" % (b.reply, b.name))
            continue
        if b.sev == 1:
            want_rc = 1
        if len(g) != 1:
            return bad("C19/diagnostic-count-%d" % len(g), "reply %r for block %s produced %d diagnostics" % (b.reply, b.name, len(g)))
        f, d = g[0]
        if d.get("code") != "check-ai" or f != b.path:
            return bad("C19/diagnostic-code-or-file", "diagnostic %s filed under %s" % (d.get("code"), f))
        if (d.get("data") or {}).get("ai_message") != b.reply or b.reply not in d.get("message", ""):
            return bad("C19/reply-not-quoted", "reply %r is not quoted: data=%r message=%r" % (b.reply, d.get("data"), d.get("message", "")[:200]))
        if d.get("severity") != b.sev:
            return bad("C19/severity", "severity %r, expected %r" % (d.get("severity"), b.sev))
    if got:
        return bad("C19/diagnostic-unknown-block", "diagnostics for unknown blocks: %s" % sorted(map(str, got)))
    if res.rc != want_rc:
        return bad("C19/exit-%d" % res.rc, "exit %d, expected %d" % (res.rc, want_rc))
    return Case(HELD, key=key, nontrivial=nontrivial, sets=sets,
                counters={"reply_runs": 1, "requests_checked": len(blocks), "requests_seen": len(reqs)},
                sample={"blocks": len(blocks), "replies": {b.name: b.reply for b in blocks[:4]}, "exit": res.rc,
                        "a_request": reqs[0]["raw"][:300] if reqs else None})


def finalize(agg, tier, coverage):
    n = len(agg["sets"].get("fault", ()))
    return [] if n >= len(FAULTS) + 1 else ["only %d of %d fault kinds exercised" % (n - 1, len(FAULTS))]


LEVEL_TEXT = ("Fault enumeration plus sampling: every fault of the statement's list (19 concrete kinds) is injected on one of 1-8 "
              "concurrent requests, answered first or last, and the run must fail; reply runs check, against the endpoint's own "
              "request log, that each block causes exactly one POST with the configured key and model carrying condition and "
              "content verbatim, and that the reply alone decides the diagnostic.")
LEVEL_NOTE = "Trusted: the in-process recording HTTP server; block attribution through a unique token in each condition."
TECHNIQUE = "runtime monitoring with fault injection: recording fake endpoint (request-log oracle) + scripted replies and network/protocol faults"
