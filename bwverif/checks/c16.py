"""C16 - grammar is chosen by file name; unknown names are skipped.

Oracle: a transcription of the documented rule over the 39-entry table (candidates are the
suffixes after each dot of the base name, shortest first, then the whole name; -E consulted per
candidate) plus a metamorphic relation: the same bytes under any name that maps to grammar G give
the same blocks as under the reference name of G. Two contents per name: a file valid in G with
construction truth, and a multi-family fingerprint whose block set differs between grammar families.
"""
from .. import gen, langs, run
from .common import (Case, HELD, VIOLATED, INCONCLUSIVE, TERM, bad_outcome, files_text, h, rng)

ID = "C16"
LEVEL = "exploration"
BUILDS = ["rel"]
BUDGET_S = {"quick": 600, "thorough": 1800}
EXHAUSTIVE = {"quick": "registered suffix x file-name shape x -E mapping kind", "thorough": "registered suffix x file-name shape x -E mapping kind"}
RULE = ("Every registered suffix x name shape {x.ext, x.y.ext, dir.with.dots/x.ext, directory named like another extension, "
        ".x.ext via a diff, a file renamed in the diff from a name of another / of no grammar, upper/lower-case variant, x.ext.bak, "
        "GNUmakefile/no extension} x -E kinds {unregistered->registered, registered->registered, key with spaces, key = a whole file "
        "name (Dockerfile, BUILD, go.mod, Makefile), onto unsupported}. For each name two contents are listed: a generated file "
        "valid in the expected grammar (construction truth) and a fixed multi-family fingerprint (hash, //, /* */, <!-- -->, "
        "--, Markdown link comments), compared with the same bytes under the grammar's reference name; names that map to no "
        "grammar hold unbalanced tags and must yield nothing, silently. Thorough adds random names and random -E tables. "
        "A case is one (name, -E table, content) listing; non-trivial = the name has >=2 dots, a directory with dots, a "
        "case variant or a -E mapping; distinct = hash of (name, -E, content).")
ASSUMPTIONS = ["the documented rule as transcribed in grammar_for(); the 39-entry suffix table of bwverif/langs.py",
               "hidden files are reached through a hand-written one-hunk diff"]

FINGERPRINT = "\n".join([
    '# <block name="hash">', "# </block>",
    '// <block name="slash">', "// </block>",
    '/* <block name="cblock"> */', "/* </block> */",
    '<!-- <block name="xml"> -->', "<!-- </block> -->",
    '-- <block name="dash">', "-- </block>",
    "",
    '[//]: # (<block name="mdlink">)', "", '[//]: # (</block>)', "",
]) + "\n"
POISON = '# <block name="p1">\n// <block name="p2">\n/* <block name="p3"> */\n<!-- <block name="p4"> -->\n-- </block>\n\n[//]: # (</block>)\n'

REF_NAME = {}
for _s in langs.ALL_SUFFIXES:
    REF_NAME.setdefault(langs.GRAMMAR_OF_SUFFIX[_s], langs.file_name_for(_s, "ref"))


def grammar_for(name, emap):
    """Documented rule: which registered suffix (hence grammar) a file name selects, or None."""
    base = name.rsplit("/", 1)[-1]

    def lookup(ext):
        ext = emap.get(ext, ext)
        return langs.GRAMMAR_OF_SUFFIX.get(ext)

    idx = [i for i, c in enumerate(base) if c == "."]
    for i in reversed(idx):
        g = lookup(base[i + 1:])
        if g:
            return g
    return lookup(base)


def shapes_for(suffix):
    special = suffix in ("Makefile", "makefile", "go.mod", "go.sum", "go.work")
    base = suffix if special else "x." + suffix
    out = [("plain", base), ("two-dots", "x.y." + suffix), ("dotted-dir", "dir.with.dots/" + base),
           ("ext-named-dir", "py/a.rs/" + base), ("hidden-via-diff", "." + ("x." + suffix)), ("dot-only-via-diff", "cfg.d/." + suffix),
           ("bak", base + ".bak"), ("tilde", base + "~")]
    up = suffix.upper() if suffix != suffix.upper() else suffix.lower()
    out.append(("case-variant", "x." + up))
    if special:
        out.append(("prefixed-special", "x." + suffix))
    return out


def plan(tier, seed):
    jobs = []
    for suffix in langs.ALL_SUFFIXES:
        jobs.append({"k": "shapes", "suffix": suffix, "seed": seed})
        jobs.append({"k": "emap", "suffix": suffix, "seed": seed})
    jobs.append({"k": "unknown", "seed": seed})
    for i in range(4 if tier == "quick" else 40):
        jobs.append({"k": "together", "i": i, "seed": seed})
    if tier == "thorough":
        for i in range(600):
            jobs.append({"k": "random", "i": i, "seed": seed})
    return jobs


def _list(ctx, name, data, eargs, via_diff=False):
    root = run.make_repo({name: data})
    try:
        if via_diff:
            first = data.decode("utf-8", "replace").split("\n")[0]
            diff = "diff --git a/%s b/%s\n--- a/%s\n+++ b/%s\n@@ -0,0 +1,1 @@\n+%s\n" % (name, name, name, name, first)
            # every line of the file counts as touched: list all blocks via an explicit full-file hunk
            nlines = data.count(b"\n")
            body = "".join("+" + l + "\n" for l in data.decode("utf-8", "replace").split("\n")[:nlines])
            diff = "diff --git a/%s b/%s\nnew file mode 100644\n--- /dev/null\n+++ b/%s\n@@ -0,0 +1,%d @@\n%s" % (name, name, name, nlines, body)
            if isinstance(via_diff, str):
                # the file was renamed (and rewritten) in the same change: the diff's source side carries the old name, which
                # maps to another grammar or to none; only the new name counts
                diff = ("diff --git a/%s b/%s\nsimilarity index 51%%\nrename from %s\nrename to %s\n--- a/%s\n+++ b/%s\n@@ -1,1 +1,%d @@\n-old first line\n%s"
                        % (via_diff, name, via_diff, name, via_diff, name, nlines, body))
            return run.run(ctx.bin("rel"), ["list"] + eargs, root, stdin=diff.encode("utf-8"), env={})
        return run.run(ctx.bin("rel"), ["list"] + eargs, root, stdin=None, env=dict(TERM))
    finally:
        run.rm(root)


def fingerprint(res, name):
    """Grammar-dependent, name-independent summary of a listing."""
    if res.cls == "ok":
        l = res.listing()
        if l is None:
            return ("not-json",)
        if not l:
            return ("none",)
        if list(l) != [name]:
            return ("other-keys", tuple(sorted(l)))
        return ("blocks", tuple((b.get("name"), b.get("line"), b.get("column")) for b in l[name]))
    if res.cls == "fail":
        msg = res.err_text().replace(name, "<NAME>")
        return ("error", msg[:200])
    return (res.cls,)


def compare(ctx, name, emap, shape, desc, out, hidden=False):
    eargs = []
    for k, v in emap.items():
        eargs += ["-E", "%s=%s" % (k, v)]
    clean = {k.strip(): v.strip() for k, v in emap.items()}
    g = grammar_for(name, clean)
    nontrivial = name.count(".") >= 2 or "/" in name or bool(emap) or shape in ("case-variant", "bak", "tilde")
    sets = {"shape": [shape], "grammar": [g or "none"], "emap": ["+".join(sorted(emap)) or "-"]}
    base_key = [name, sorted(emap.items())]
    if g is None:
        res = _list(ctx, name, POISON.encode(), eargs, via_diff=hidden)
        root = run.make_repo({name: POISON})
        try:
            val = run.run(ctx.bin("rel"), eargs, root, stdin=None, env=dict(TERM))
        finally:
            run.rm(root)
        key = h(base_key + ["poison"])
        if bad_outcome(res) or res.cls != "ok" or res.listing() != {} or val.rc != 0 or val.err.strip():
            out.append(Case(VIOLATED, key=key, nontrivial=nontrivial, sig="C16/unknown-name-not-skipped/%s" % shape, evals=2, sets=sets,
                            summary="name %r maps to no grammar but was not skipped silently: list exit %s %r / run exit %s %r" % (
                                name, res.rc, (res.out_text() + res.err_text())[:200], val.rc, val.err_text()[:200]),
                            witness={"name": name, "emap": emap, "content": POISON, "desc": desc,
                                     "observed": {"list": res.brief(), "run": val.brief()}}))
        else:
            out.append(Case(HELD, key=key, nontrivial=nontrivial, evals=2, sets=sets, counters={"skipped_names": 1},
                            sample={"name": name, "emap": emap, "expected_grammar": None, "listing": {}}))
        return
    # (1) a file valid in grammar g, with construction truth (not for Swift: see the recorded C03 finding; the fingerprint
    # comparison below still covers the name -> grammar mapping of .swift)
    lang = g if g != "go" or not name.endswith(("go.mod", "go.sum", "go.work")) else "gomod"
    if g == "swift":
        lang = None
    r = rng("c16file", g, desc.get("seed", 0))
    if lang is not None:
        for _try in range(30):
            gf = gen.gen_file(r, lang if lang in langs.LANGS else g, gen.Opts(max_blocks=5, max_depth=2))
            # the file should contain decoys (tags in strings / markup), which is where sibling grammars disagree
            if g == "cpp" and b'R"x(' not in gf.data:
                continue      # C++ raw string literals are where the C and C++ grammars disagree
            if gf.meta["decoys"] >= 2 or not langs.LANGS[lang if lang in langs.LANGS else g]["decoys"]:
                break
        res = _list(ctx, name, gf.data, eargs, via_diff=hidden)
        want = ("blocks", tuple((b.name, b.line, b.col) for b in gf.blocks))
        got = fingerprint(res, name)
    key = h(base_key + ["valid", g])
    if lang is None:
        pass
    elif got != want:
        out.append(Case(VIOLATED, key=key, nontrivial=nontrivial, sig="C16/wrong-grammar/%s/%s" % (shape, got[0]), evals=1, sets=sets,
                        summary="name %r (-E %s) should be parsed as %s: expected blocks %s, got %s" % (name, emap, g, want[1][:4], str(got)[:300]),
                        witness={"name": name, "emap": emap, "content": gf.data.decode("utf-8", "replace")[:2000], "desc": desc,
                                 "expected": want, "observed": res.brief(1500)}))
    else:
        out.append(Case(HELD, key=key, nontrivial=nontrivial, evals=1, sets=sets, counters={"valid_files_matched": 1},
                        sample={"name": name, "emap": emap, "expected_grammar": g, "blocks": [b.name for b in gf.blocks]}))
    # (2) the multi-family fingerprint vs the reference name of g
    ref = REF_NAME[g]
    a = fingerprint(_list(ctx, name, FINGERPRINT.encode(), eargs, via_diff=hidden), name)
    b = fingerprint(_list(ctx, ref, FINGERPRINT.encode(), []), ref)
    key = h(base_key + ["fingerprint", g])
    sets2 = dict(sets, fingerprints=[str(b)[:120]])
    if a != b:
        out.append(Case(VIOLATED, key=key, nontrivial=nontrivial, sig="C16/fingerprint-differs/%s" % shape, evals=2, sets=sets2,
                        summary="same bytes: %r lists %s but reference %r (grammar %s) lists %s" % (name, str(a)[:200], ref, g, str(b)[:200]),
                        witness={"name": name, "ref": ref, "emap": emap, "content": FINGERPRINT, "desc": desc}))
    else:
        out.append(Case(HELD, key=key, nontrivial=nontrivial, evals=2, sets=sets2, counters={"fingerprints_matched": 1}))


def run_job(job, ctx):
    out = []
    k = job["k"]
    if k == "shapes":
        for shape, name in shapes_for(job["suffix"]):
            compare(ctx, name, {}, shape, job, out, hidden=shape.endswith("-via-diff"))
        base = shapes_for(job["suffix"])[0][1]
        other = "old.md" if langs.GRAMMAR_OF_SUFFIX[job["suffix"]] != "markdown" else "old.py"
        compare(ctx, "moved/" + base, {}, "renamed-via-diff/old-name-unknown", job, out, hidden="notes/old_name.txt")
        compare(ctx, "moved/" + base, {}, "renamed-via-diff/old-name-other-grammar", job, out, hidden=other)
    elif k == "emap":
        s = job["suffix"]
        others = [x for x in langs.ALL_SUFFIXES if langs.GRAMMAR_OF_SUFFIX[x] != langs.GRAMMAR_OF_SUFFIX[s] and "." not in x]
        r = rng("c16e", job["seed"], s)
        other = r.choice(others)
        compare(ctx, "x.zzz", {"zzz": s}, "E-unregistered", job, out)
        compare(ctx, "x.y.zzz", {"zzz": s}, "E-unregistered", job, out)
        compare(ctx, "x.zzz", {" zzz ": " %s " % s}, "E-key-with-spaces", job, out)
        compare(ctx, "x." + other, {other: s}, "E-registered-to-registered", job, out)
        compare(ctx, "x.%s.bak" % other, {"bak": s}, "E-outer-candidate", job, out)
        compare(ctx, "x.q.w", {"q.w": s}, "E-compound-key", job, out)
        compare(ctx, "x.zzz", {"yyy": s}, "E-unrelated", job, out)
        compare(ctx, "widget.ZZZ", {"ZZZ": s}, "E-uppercase-key", job, out)        # keys are compared as written
        # the target of one mapping is the key of another (both registered): a target names a grammar, it is not mapped again
        compare(ctx, "x.zz1", {"zz1": s, s: other}, "E-target-is-a-key", job, out)
        compare(ctx, "x." + s, {"zz1": s, s: other}, "E-target-is-a-key", job, out)
        compare(ctx, "widget.Zz", {"zz": s}, "E-key-case-differs", job, out)        # ... so this name maps to nothing
        # keys that are whole file names (no dot to split at): consulted by the whole-name fallback
        compare(ctx, "Dockerfile", {"Dockerfile": s}, "E-whole-name", job, out)
        compare(ctx, "pkg.v2/BUILD", {"BUILD": s}, "E-whole-name", job, out)
        compare(ctx, "sub/go.mod", {"go.mod": s}, "E-whole-name-registered", job, out)
        compare(ctx, "Makefile", {"Makefile": s}, "E-whole-name-registered", job, out)
        # mapping onto an unsupported grammar must be rejected up front
        for bad_target, pre, post in (("zzz", [], []), (s.upper() if s.upper() != s else s + "x", [], []), ("", [], []),
                                      ("zzz", ["-E", "good1=%s" % s], []), ("nope", ["-E", "g1=%s" % s, "-E", "g2=py"], ["-E", "g3=rs"]),
                                      ("zzz", [], ["-E", "good2=%s" % s]),
                                      # the target is the *key* of another mapping, not a grammar (mappings are not chained)
                                      ("k1", ["-E", "k1=%s" % s], []), ("k2", [], ["-E", "k2=%s" % s]), ("abc2", ["-E", "abc2=abc"], [])):
            root = run.make_repo({"x.py": '# <block name="a">\n# </block>\n'})
            try:
                res = run.run(ctx.bin("rel"), ["list"] + pre + ["-E", "abc=%s" % bad_target] + post, root, stdin=None, env=dict(TERM))
            finally:
                run.rm(root)
            key = h(["reject", s, bad_target, pre, post])
            sets = {"shape": ["E-unsupported"], "grammar": ["-"]}
            if res.rc == 0 or bad_outcome(res) or not res.err.strip():
                out.append(Case(VIOLATED, key=key, nontrivial=True, sig="C16/unsupported-mapping-accepted", sets=sets,
                                summary="-E abc=%r was not rejected: exit %s, stderr %r" % (bad_target, res.rc, res.err_text()[:200]),
                                witness={"argv": res.argv, "observed": res.brief()}))
            else:
                out.append(Case(HELD, key=key, nontrivial=True, sets=sets, counters={"rejections": 1}))
    elif k == "together":
        # many names in ONE run: each file's grammar must not depend on which other files are examined with it (a grammar
        # chosen per name, not per "last extension seen first")
        r = rng("c16t", job["seed"], job["i"])
        files, want = {}, {}
        names = []
        for suffix in r.sample(langs.ALL_SUFFIXES, 14) + ["go.mod", "go.sum", "go.work", "d.ts", "Makefile"]:
            if suffix == "swift":
                continue
            names.append(r.choice(["a/", "b/c/", ""]) + langs.file_name_for(suffix, r.choice(["x", "y.z", "w"])))
        names = list(dict.fromkeys(names))
        for name in names:
            g = grammar_for(name, {})
            lang = g if not name.endswith(("go.mod", "go.sum", "go.work")) else "gomod"
            gf = gen.gen_file(r, lang, gen.Opts(max_blocks=3, max_depth=2))
            files[name] = gf.data
            want[name] = [(b.name, b.line, b.col) for b in gf.blocks]
        # unregistered names that share their *last* extension with a compound / whole-name suffix
        for name in ("notes.mod", "checks.sum", "zz.work", "sub/x.mod", "Makefile.bak", "readme.d"):
            files[name] = POISON.encode()
        order = list(files)
        r.shuffle(order)
        root = run.make_repo({n: files[n] for n in order})
        try:
            res = run.run(ctx.bin("rel"), ["list"], root, stdin=None, env=dict(TERM))
        finally:
            run.rm(root)
        key = h(["together", sorted(files)])
        sets = {"shape": ["together"], "grammar": ["many"]}
        listing = res.listing() if res.cls == "ok" else None
        got = {n: [(b.get("name"), b.get("line"), b.get("column")) for b in v] for n, v in (listing or {}).items()}
        if listing is None or got != {n: w for n, w in want.items() if w}:
            diffn = sorted(n for n in set(got) | set(want) if got.get(n, []) != want.get(n, []))[:4] if listing is not None else []
            out.append(Case(VIOLATED, key=key, nontrivial=True, sets=sets, sig="C16/together/%s" % ("run-" + res.cls if listing is None else "blocks-differ"),
                            summary="%d files examined in one run: %s; differing files %s; stderr %s" % (len(files), res.cls, diffn, res.err_text()[:200]),
                            witness={"files": files_text(files, 800), "expected": want, "observed": res.brief(3000), "job": job}))
        else:
            out.append(Case(HELD, key=key, nontrivial=True, sets=sets, counters={"together_runs": 1, "together_files": len(files)}))
        # the same bytes under names of different grammars, examined in ONE run (scan, and diff naming all of them): every file must
        # be listed exactly as if it were alone - what a file yields depends on its own name, not on another file with equal content
        sfx = [x for x in r.sample(langs.ALL_SUFFIXES, 12) if x != "swift"]
        same = {}
        for x in sfx:
            same[r.choice(["", "d/", "e.f/"]) + langs.file_name_for(x, "same")] = FINGERPRINT.encode()
        same["notes/same.txt"] = FINGERPRINT.encode()
        alone = {}
        for n in same:
            g = grammar_for(n, {})
            if g is None:
                alone[n] = ("none",)
            else:
                fp = fingerprint(_list(ctx, REF_NAME[g], FINGERPRINT.encode(), []), REF_NAME[g])
                alone[n] = fp
        for mode in ("scan", "diff"):
            order = list(same)
            r.shuffle(order)
            root = run.make_repo({n: same[n] for n in order})
            try:
                if mode == "scan":
                    res = run.run(ctx.bin("rel"), ["list"], root, stdin=None, env=dict(TERM))
                else:
                    nl = FINGERPRINT.count("\n")
                    body = "".join("+" + l + "\n" for l in FINGERPRINT.split("\n")[:nl])
                    d = "".join("diff --git a/%s b/%s\nnew file mode 100644\n--- /dev/null\n+++ b/%s\n@@ -0,0 +1,%d @@\n%s" % (n, n, n, nl, body) for n in order)
                    res = run.run(ctx.bin("rel"), ["list"], root, stdin=d.encode(), env={})
            finally:
                run.rm(root)
            key = h(["same-bytes", sorted(same), mode])
            sets = {"shape": ["same-bytes-together/" + mode], "grammar": ["many"]}
            listing = res.listing() if res.cls == "ok" else None
            bad = []
            if listing is not None:
                for n in same:
                    got = ("none",) if n not in listing else ("blocks", tuple((b.get("name"), b.get("line"), b.get("column")) for b in listing[n]))
                    want = alone[n] if alone[n][0] != "blocks" else ("blocks", alone[n][1])
                    if got != want and not (want[0] == "error"):
                        bad.append((n, str(want)[:80], str(got)[:80]))
            # a grammar under which the fingerprint is unbalanced makes the whole run fail: then the run must fail too
            must_fail = any(a[0] == "error" for a in alone.values())
            if (listing is None) != must_fail or bad:
                out.append(Case(VIOLATED, key=key, nontrivial=True, sets=sets, sig="C16/same-bytes-together/%s" % ("run-" + res.cls if listing is None or must_fail else "blocks-differ"),
                                summary="%d files with identical bytes in one %s run: %s; files listed differently than alone: %s; stderr %s" % (
                                    len(same), mode, res.cls, bad[:3], res.err_text()[:200]),
                                witness={"names": sorted(same), "content": FINGERPRINT, "alone": {n: str(v) for n, v in alone.items()}, "observed": res.brief(3000), "job": job}))
            else:
                out.append(Case(HELD, key=key, nontrivial=True, sets=sets, counters={"same_bytes_runs": 1}))
    elif k == "unknown":
        for name in ("GNUmakefile", "README", "Dockerfile", "x", "x.", "x.txt", "x.PY", "x.Py", "MAKEFILE", "x.makefile.in",
                     "go.mod.bak", "x.d", "x.mod", "x.sum", "d.ts.map", "x.rs~", "x.yaml.j2", "x.c++", "x.hpp", "py", "x.py "):
            compare(ctx, name, {}, "unknown-name", job, out)
    else:
        r = rng("c16r", job["seed"], job["i"])
        parts = [r.choice(["x", "y", "a.b", "Makefile", "go", "d", "ts", "py", "rs", "mod", "zzz", "q", "MK", "md", "x y"]) for _ in range(r.randint(1, 4))]
        name = ".".join(parts)
        if r.random() < 0.3:
            name = r.choice(["d.ir/", "py/", "a/b.rs/"]) + name
        emap = {}
        for _ in range(r.choice([0, 0, 1, 2])):
            emap[r.choice(["zzz", "q", "mod", "MK", "py", "ts", "d.ts", "x y"])] = r.choice([s for s in langs.ALL_SUFFIXES])
        compare(ctx, name, emap, "random", job, out)
    return out


LEVEL_TEXT = ("Exhaustive over registered suffix x name shape x -E mapping kind (the quantifier's finite part), sampling for random "
              "names and mappings: each name is listed with a valid file of the expected grammar (construction truth) and with "
              "a multi-family fingerprint compared against the grammar's reference name; names mapping to nothing must be "
              "skipped silently even when full of unbalanced tags.")
LEVEL_NOTE = "Trusted: grammar_for() as a reading of the documentation; the suffix table; the fingerprint distinguishing grammar families."
TECHNIQUE = "runtime monitoring: documented-rule oracle + metamorphic same-bytes-different-name relation over `blockwatch list`"
