"""C07 - keep-unique reports a block iff two keys coincide (reference model, bounded-exhaustive)."""
import itertools

from .. import models, vbatch
from .common import h, rng

ID = "C07"
LEVEL = "exploration"
BUILDS = ["rel"]
BUDGET_S = {"quick": 600, "thorough": 3000}
MAXLEN = {"quick": 4, "thorough": 5}
EXHAUSTIVE = {"quick": "all line sequences of length <=4 over the per-mode alphabets x {no regex, group regex, plain regex} x {bare, empty}",
              "thorough": "all line sequences of length <=5 over the per-mode alphabets x {no regex, group regex, plain regex} x {bare, empty}"}
ALPHA = {
    "none": ["a", "b", "a ", "  a", "\ta\t", "", "   ", "A", "ab", "a b", "a  b", "b", "a\u3000", "\u3000"],
    "group": ["id: a x", "id: a y", "id: b x", "  id: a", "ID: a", "", "   ", "other a", "id: ab", "id:  a", "k id: b", "id: a",
              "a id: a"],      # the key's text also occurs earlier on the line, outside the capture
    # the regex contains the host's comment marker
    "hash": ["#1 x", "#1 y", "#2", "  #1", "", "n 1", "1", "a#2b", "# 1", "#12", "issue #1"],
    # the `value` group may match nothing: the empty string is a key like any other
    "empty-key": ["a=", "b=", "a=1", "b=1", "c=2", "", "x", "  d=", "e= ", "a=1 "],
    "plain": ["a1 x", "a1 y", "b2 x", "  a1", "zz a1", "", "   ", "other", "a12", "A1", "a1", "b2"],
}
# the regex is made of white space only (a space, or a tab): it is still a regex, and the keys are its matches
ALPHA["blank-regex"] = ["a b", "c d", "ab", "", "  x", "a  b", "\tq", "\u00e9 f", "q\tr"]
ALPHA["tab-regex"] = ALPHA["blank-regex"]
ALPHA["group2"] = ALPHA["group"]     # same lines, regex with unnamed capturing groups before and after `value`
ALPHA["optional-group"] = ALPHA["group"]
ALPHA["with-keep-sorted"] = ALPHA["none"]   # the block also carries keep-sorted (whose own diagnostics are not this check's subject)
ALPHA["anchored"] = ALPHA["group"]   # same lines, regex anchored at both ends (line terminators must not be part of a line)
PATTERN = {"none": None, "empty-key": r"^\s*\w+=(?P<value>\w*)", "hash": r"#(?P<value>\d+)", "group": r"id: (?P<value>\w+)", "plain": r"[a-z]\d+", "group2": r"(id|ID): (?P<value>\w+)( x| y)?",
           "anchored": r"^\s*id: (?P<value>\w+)$", "optional-group": r"id: (?P<value>[a-z]+)|\w+",
           "with-keep-sorted": None, "blank-regex": " ", "tab-regex": "\t"}
RULE = ("Bounded-exhaustive: every sequence of up to MAXLEN lines over a 12-symbol alphabet (repeated keys, keys differing "
        "only in indentation or trailing blanks, keys differing only outside the regex group, case variants, blank and "
        "non-matching lines) x {no regex, `value` group regex, plain regex, `value` group between unnamed groups}; plus random long blocks with Unicode keys "
        "and CRLF. Judged by a reference model on presence, count (<=1) and the designated line/columns. A case is one "
        "block; non-trivial = >=2 keys; distinct = hash of (attributes, lines).")
ASSUMPTIONS = ["simple layout only (tags in their own line comments)",
               "regexes limited to constructs with identical semantics in Python re and Rust regex"]


def _attrs(mode, bare):
    if mode == "with-keep-sorted":
        return [("keep-unique", None if bare else ""), ("keep-sorted", "asc" if bare else "desc")]
    if mode == "none":
        return [("keep-unique", None if bare else "")]
    return [("keep-unique", PATTERN[mode])]


def plan(tier, seed):
    jobs = []
    maxlen = MAXLEN[tier]
    for mode in ("none", "group", "plain", "group2", "anchored", "optional-group", "with-keep-sorted", "hash", "empty-key", "blank-regex", "tab-regex"):
        for bare in ((True, False) if mode in ("none", "with-keep-sorted") else (False,)):
            jobs.append({"k": "enum", "mode": mode, "bare": bare, "len": (0, min(3, maxlen)), "first": None})
            for L in range(4, maxlen + 1):
                for first in range(len(ALPHA[mode])):
                    jobs.append({"k": "enum", "mode": mode, "bare": bare, "len": (L, L), "first": first})
    for i in range(16 if tier == "quick" else 400):
        jobs.append({"k": "rand", "i": i, "seed": seed})
    jobs.append({"k": "nested", "seed": seed})
    jobs.append({"k": "huge", "seed": seed})
    return jobs


def model(b):
    a = dict(b.attrs)
    r = models.keep_unique(b.content, a.get("keep-unique") or None)
    if r is None:
        return None
    return {"line_idx": r[0], "key": r[1], "c1": r[2], "c2": r[3]}


def _nontrivial(b):
    return len(models.keys_of(b.content, dict(b.attrs).get("keep-unique") or None)) >= 2


def _sets(b, exp):
    a = dict(b.attrs)
    return {"config": ["regex" if a.get("keep-unique") else ("bare" if a.get("keep-unique") is None else "empty")],
            "verdict": ["duplicate" if exp else "unique"]}


ATTRS_NESTED = [[("keep-unique", None)], [("keep-unique", "name=\\\"(?P<value>[a-z]+)")]]


def run_job(job, ctx):
    acc = vbatch.Acc()
    if job["k"] == "enum":
        alpha = ALPHA[job["mode"]]
        lo, hi = job["len"]
        blocks = []

        def flush():
            if blocks:
                for c in vbatch.run_batch(ctx, blocks, "hash", "keep-unique", model, sig_prefix="C07",
                                          nontrivial_fn=_nontrivial, sets_fn=_sets, ignore_codes=("keep-sorted",)):
                    acc.add(c)
                # the same sequences with the first line on the start tag's line and the last line on the end tag's line
                # (no empty leading piece, no trailing line terminator), LF and CRLF
                for eol in (("\n", "\r\n") if ctx.tier == "thorough" else ("\r\n",)):
                    inl = []
                    for b in blocks:
                        ls = b.lines
                        if not ls or any(set(l) & set("/*\u3000\u00a0") for l in ls):
                            continue
                        inl.append(vbatch.BBlock(b.attrs, ls[1:-1] if len(ls) >= 2 else [], inline_first=" " + ls[0],
                                                 inline_last=ls[-1] if len(ls) >= 2 else None))
                    if inl:
                        for c in vbatch.run_batch(ctx, inl, "c", "keep-unique", model, eol=eol, sig_prefix="C07", nontrivial_fn=_nontrivial, sets_fn=_sets,
                                                  ignore_codes=("keep-sorted",)):
                            acc.add(c)
                del blocks[:]

        for L in range(lo, hi + 1):
            if job["first"] is None:
                seqs = itertools.product(alpha, repeat=L)
            else:
                seqs = ((alpha[job["first"]],) + rest for rest in itertools.product(alpha, repeat=L - 1))
            for seq in seqs:
                blocks.append(vbatch.BBlock(_attrs(job["mode"], job["bare"]), list(seq)))
                if len(blocks) >= 2500:
                    flush()
        flush()
    elif job["k"] == "huge":
        # 70,000 distinct keys with one repetition beyond line 65,536 (of a key first seen on line 3), and the all-distinct twin
        lines = ["k%06d" % i for i in range(70000)]
        dup = list(lines)
        dup[69995] = lines[2]
        blocks = [vbatch.BBlock([("keep-unique", None)], ["a", "b"]) for _ in range(100)]
        blocks += [vbatch.BBlock([("keep-unique", None)], dup), vbatch.BBlock([("keep-unique", None)], lines),
                   vbatch.BBlock([("keep-unique", r"k(?P<value>\d+)")], dup)]
        for c in vbatch.run_batch(ctx, blocks, "hash", "keep-unique", model, sig_prefix="C07", prefix="huge", nontrivial_fn=_nontrivial, sets_fn=_sets):
            acc.add(c)
    elif job["k"] == "nested":
        # nested blocks: the inner blocks' tag lines are ordinary lines (keys) of the outer block, and each inner block is
        # judged on its own content
        import itertools as _it
        blocks = []
        k = 0
        for attrs in ATTRS_NESTED:
            for pre, inner, post in _it.product([[], ["a"], ["z"], ["b", "a"]], [["m"], ["a", "a"], []], [[], ["a"], ["zz"]]):
                lines = list(pre) + ['# <block name="in' + str(k) + '">'] + list(inner) + ["# </block>"] + list(post)
                k += 1
                blocks.append(vbatch.BBlock(list(attrs), lines))
        for c in vbatch.run_batch(ctx, blocks, "hash", "keep-unique", model, sig_prefix="C07", prefix="outer", nontrivial_fn=_nontrivial, sets_fn=_sets):
            acc.add(c)
    else:
        r = rng("c07", job["seed"], job["i"])
        blocks = [_random_block(r) for _ in range(40)]
        _second_validator(blocks)
        eol = "\r\n" if job["i"] % 3 == 0 else "\n"
        for c in vbatch.run_batch(ctx, blocks, "cm" if job["i"] % 4 == 2 else "hash", "keep-unique", model, eol=eol, bom=(job["i"] % 3 == 1), ignore_codes=("line-count",), sig_prefix="C07",
                                  nontrivial_fn=_nontrivial, sets_fn=_sets):
            acc.add(c)
    return acc.to_cases(h(job))


WORDS = ["alpha", "beta", "Beta", "gamma", "épée", "epee", "日本", "日本語", "ß", "ss", "a", "aa", "b", "_x", "10", "010", "ñ", "n"]


def _second_validator(blocks):
    """Every fifth block also carries a violated rule of another synchronous validator: two validators report on the same file."""
    for j, b in enumerate(blocks):
        if j % 5 == 2 and any(l.strip() for l in b.lines):      # not the first block: the main validator is detected (and joined) first
            b.attrs = list(b.attrs) + [("line-count", "<1")]


def _random_block(r):
    mode = r.choice(["none", "none", "group", "plain"])
    n = r.choice([2, 3, 5, 8, 20, 60, 200, 400])
    pool = [w + str(i) for i, w in enumerate(r.sample(WORDS * 30, min(n, 400)))] if r.random() < 0.5 else None
    lines = []
    for i in range(n):
        if pool and r.random() < 0.97:
            k = pool[i]
        else:
            k = r.choice(WORDS) + r.choice(["", "1", "2"])
        ind = r.choice(["", "", "  ", "\t"] + ([] if r.random() < 0.7 else ["\x0c", "\u2028", "\u0085 ", "\r", "\u3000\t"]))      # odd White_Space
        if mode == "none":
            lines.append(ind + k + r.choice(["", "", " "] + ([] if r.random() < 0.7 else ["\r", " \r", "\x0b", "\u3000", "\u00a0"])))
        elif mode == "group":
            lines.append(ind + "id: " + k + r.choice(["", " trailing", " x"]))
        else:
            lines.append(ind + r.choice(["", "PRE ", "X Y "]) + "k%d" % (hash(k) % 50 if not pool else i) + r.choice(["", " Z"]))
        if r.random() < 0.1:
            lines.append(r.choice(["", "   "]))
    return vbatch.BBlock(_attrs(mode, False), lines)


LEVEL_TEXT = ("Bounded-exhaustive comparison with an executable reference model (all line sequences up to length 4 quick / 5 "
              "thorough over a boundary-rich alphabet x three key-extraction modes), judged on presence, count and the "
              "designated first repeated key; random long/Unicode/CRLF blocks beyond the bound.")
LEVEL_NOTE = "Trusted: reference model in bwverif/models.py; Python re == Rust regex on the two fixed patterns."
TECHNIQUE = "runtime monitoring: reference-model oracle over bounded-exhaustive batches of blocks executed by the real binary"
