"""C13 - malformed rules fail closed."""
import os

from .. import fake_ai, run, scenario
from .common import (Case, HELD, VIOLATED, INCONCLUSIVE, TERM, bad_outcome, files_text, h, lua_script, rng, endpoint_flake)
from . import c11

ID = "C13"
LEVEL = "fault_enumeration"
BUILDS = ["rel"]
BUDGET_S = {"quick": 600, "thorough": 2400}
RULE = ("A table of ~90 malformations (unknown sort direction/format; non-numeric key under numeric sort as the only, first, "
        "middle or last key, also behind an earlier warning-severity violation; uncompilable regexes in keep-sorted-pattern, "
        "keep-unique, line-pattern, check-lua-pattern, check-ai-pattern on blocks with content; bad line-count expressions "
        "incl. overflow; affects without colon on a modified block; unknown severity on a violating block; Lua script path "
        "empty, blank, missing, a directory, an empty file, a file without validate; blank AI condition; missing or empty "
        "API key) x {alone on its block, next to a healthy rule of another kind on the same block} x placement on the first/middle/last block of the first/last file among 0-20 healthy blocks in 1-4 files "
        "x scan and diff mode. Expected: non-zero exit, no crash, an error text that names the file or the attribute. A "
        "healthy-only control of each tree must exit 0. A case is one (malformation, placement, mode) execution; "
        "non-trivial = the bad block is not the only block; distinct = hash of (files, mode).")
ASSUMPTIONS = ["healthy neighbour blocks have no error-severity violation, so exit 0 is what a silent pass would produce",
               "'explanatory' is checked as: stderr non-empty and mentions the file path or the attribute name"]


def malformations(sc):
    """(id, attrs, content lines, needs, tokens that an explanatory message may mention)"""
    M = []

    def add(mid, attrs, lines=("b", "a"), needs=(), mention=()):
        M.append({"id": mid, "attrs": attrs, "lines": list(lines), "needs": set(needs), "mention": list(mention)})

    for v in ("up", "ascending", "asc,", "a sc", "descending", "1", "asc desc"):
        add("sorted-direction:" + v, [("keep-sorted", v)], mention=["keep-sorted"])
    for v in ("alpha", "num", "numeric,", "number", "lex"):
        add("sorted-format:" + v, [("keep-sorted", "asc"), ("keep-sorted-format", v)], mention=["keep-sorted-format"])
    for lines, tag in (((), "empty"), (("", "   "), "blank")):
        add("sorted-direction-%s-block:sideways" % tag, [("keep-sorted", "sideways")], lines, mention=["keep-sorted"])
        add("sorted-format-%s-block:numerical" % tag, [("keep-sorted", "asc"), ("keep-sorted-format", "numerical")], lines, mention=["keep-sorted-format"])
        add("line-count-%s-block:oops" % tag, [("line-count", "oops")], lines, mention=["line-count"])
        add("lua-%s-block:missing-file" % tag, [("check-lua", sc["dir"] + "/does-not-exist.lua")], lines, mention=["does-not-exist.lua", "check-lua"])
    add("numeric-key:only", [("keep-sorted", "asc"), ("keep-sorted-format", "numeric")], ["abc"], mention=["abc", "number"])
    add("numeric-key:first", [("keep-sorted", "asc"), ("keep-sorted-format", "numeric")], ["abc", "1", "2"], mention=["abc", "number"])
    add("numeric-key:middle", [("keep-sorted", "asc"), ("keep-sorted-format", "numeric")], ["1", "x2", "3"], mention=["x2", "number"])
    add("numeric-key:last", [("keep-sorted", "asc"), ("keep-sorted-format", "numeric")], ["1", "2", "3x"], mention=["3x", "number"])
    add("numeric-key:underscore", [("keep-sorted", "asc"), ("keep-sorted-format", "numeric")], ["1", "1_000"], mention=["1_000", "number"])
    add("numeric-key:hex", [("keep-sorted", ""), ("keep-sorted-format", "Numeric")], ["1", "0x10"], mention=["0x10", "number"])
    add("numeric-key:desc-last", [("keep-sorted", "desc"), ("keep-sorted-format", "numeric")], ["3", "2", "one"], mention=["one", "number"])
    add("numeric-key:with-pattern", [("keep-sorted", "asc"), ("keep-sorted-format", "numeric"), ("keep-sorted-pattern", "id: (?P<value>\\S+)")],
        ["id: 1", "id: two"], mention=["two", "number"])
    for i, rx in enumerate(["(", "[a-", "*a", "(?P<value>", "a{2,1}", "\\", "(?P<value>a)(?P<value>b)", "a)|(b", ")("]):
        add("regex:keep-sorted-pattern:%d" % i, [("keep-sorted", "asc"), ("keep-sorted-pattern", rx)], mention=["keep-sorted-pattern"])
        add("regex:keep-unique:%d" % i, [("keep-unique", rx)], mention=["keep-unique"])
        add("regex:line-pattern:%d" % i, [("line-pattern", rx)], mention=["line-pattern"])
        add("regex:check-lua-pattern:%d" % i, [("check-lua", sc["nil"]), ("check-lua-pattern", rx)], mention=["check-lua-pattern"])
        add("regex:check-ai-pattern:%d" % i, [("check-ai", "cond"), ("check-ai-pattern", rx)], needs=["ai"], mention=["check-ai-pattern"])
    for v in ("", "5", "=5", "<", "<=x", "< -1", "<1.5", "<99999999999999999999999", "=>3", "!=3", "< 3 4", "lt 3", "<=", "< 3;", "3 >"):
        add("line-count:" + v, [("line-count", v)], mention=["line-count"])
    for v in ("README.md", "a:b, c", "nocolon", ",", "a:b,,c:d"):
        add("affects:" + v, [("affects", v)], needs=["diff"], mention=["affects"])
    for v in ("warn", "fatal", "", "errors", " error", "1", "warning,", "h\u0131nt", "warn\u0131ng", "\u0131nfo", "error\u017f"):
        add("severity:" + v, [("line-count", "<1"), ("severity", v)], mention=["severity"])
    add("lua:empty-path", [("check-lua", "")], mention=["check-lua"])
    add("lua:blank-path", [("check-lua", "   ")], mention=["check-lua"])
    add("lua:missing-file", [("check-lua", sc["dir"] + "/does-not-exist.lua")], mention=["does-not-exist.lua", "check-lua"])
    add("lua:directory", [("check-lua", sc["dir"])], mention=[sc["dir"], "check-lua"])
    add("lua:empty-file", [("check-lua", sc["empty"])], mention=["validate", "check-lua"])
    add("lua:no-validate", [("check-lua", sc["novalidate"])], mention=["validate", "check-lua"])
    add("lua:validate-not-function", [("check-lua", sc["notfn"])], mention=["validate", "check-lua"])
    add("ai:empty-condition", [("check-ai", "")], needs=["ai"], mention=["check-ai"])
    add("ai:blank-condition", [("check-ai", "  \t ")], needs=["ai"], mention=["check-ai"])
    add("ai:missing-key", [("check-ai", "cond")], needs=["ai-nokey"], mention=["API key", "BLOCKWATCH_AI_API_KEY", "check-ai"])
    add("ai:empty-key", [("check-ai", "cond")], needs=["ai-emptykey"], mention=["API key", "BLOCKWATCH_AI_API_KEY", "check-ai"])
    return M


COMPANIONS = [
    [("keep-sorted", "asc"), ("keep-sorted-pattern", "ZZZ(?P<value>x)")],      # no line yields a key
    [("keep-unique", "ZZZ(?P<value>x)")],
    [("line-pattern", ".*")],
    [("line-count", ">=0")],
    [("affects", ":bad")],                                                      # refers to the block itself
    [("check-lua", "@nil")],
]


def _kind(attr):
    for k in ("keep-sorted", "keep-unique", "line-pattern", "line-count", "affects", "check-lua", "check-ai", "severity"):
        if attr.startswith(k):
            return k
    return attr


def _scripts():
    sc = dict(c11.scripts())
    d = os.path.join(run.scratch_root(), "c13lua")
    os.makedirs(d, exist_ok=True)
    for name, text in (("empty.lua", ""), ("novalidate.lua", "local x = 1\n"), ("notfn.lua", "validate = 42\n")):
        p = os.path.join(d, name)
        if not os.path.exists(p):
            with open(p, "w") as f:
                f.write(text)
    sc.update({"dir": d, "empty": os.path.join(d, "empty.lua"), "novalidate": os.path.join(d, "novalidate.lua"),
               "notfn": os.path.join(d, "notfn.lua")})
    return sc


def plan(tier, seed):
    n = 8 if tier == "quick" else 120
    return [{"m": mi, "rep": rep, "seed": seed} for mi in range(NMAL) for rep in range(n)]


NMAL = 160   # upper bound; run_job skips indexes beyond the table


def healthy_block(r, name, sc):
    """A block that yields no error-severity diagnostic."""
    kind = r.randrange(6)
    if kind == 0:
        return scenario.SBlock(name, [("name", name), ("keep-sorted", "asc")], ["a", "b", "c"], [])
    if kind == 1:
        return scenario.SBlock(name, [("name", name), ("keep-unique", None), ("severity", "warning")], ["a", "a"], [])
    if kind == 2:
        return scenario.SBlock(name, [("name", name), ("line-pattern", "^[a-z]+$"), ("line-count", "<9")], ["abc", "de"], [])
    if kind == 3:
        return scenario.SBlock(name, [("name", name), ("check-lua", sc["nil"])], ["x"], [])
    if kind == 4:
        return scenario.SBlock(name, [("name", name), ("keep-sorted", "desc"), ("severity", "info")], ["a", "b"], [])
    return scenario.SBlock(name, [("name", name)], ["free text"], [])


def whole_diff(files):
    out = []
    for name, text in files.items():
        lines = text.split("\n")
        if lines and lines[-1] == "":
            lines.pop()
        out.append("diff --git a/%s b/%s\nnew file mode 100644\n--- /dev/null\n+++ b/%s\n@@ -0,0 +1,%d @@\n%s" % (
            name, name, name, len(lines), "".join("+" + l + "\n" for l in lines)))
    return "".join(out).encode("utf-8")


def run_job(job, ctx):
    sc = _scripts()
    table = malformations(sc)
    if job["m"] >= len(table):
        return []
    m = table[job["m"]]
    r = rng("c13", job["seed"], m["id"], job["rep"])
    nfiles = r.randint(1, 4)
    nhealthy = r.choice([0, 1, 3, 8, 20, 45])
    per = [[] for _ in range(nfiles)]
    many_lua = nhealthy == 45      # a crowd of healthy scripted blocks behind the bad one (bounded task pools, early drains)
    for k in range(nhealthy):
        if many_lua:
            per[0].append(scenario.SBlock("h%d" % k, [("name", "h%d" % k), ("check-lua", sc["nil"])], ["x"], []))
        else:
            per[r.randrange(nfiles)].append(healthy_block(r, "h%d" % k, sc))
    which_file = 0 if many_lua else r.choice([0, nfiles - 1])
    # the bad block may also carry a healthy rule of another kind (one that cannot report anything on these lines): the malformed
    # rule must be evaluated whatever else is detected on the same block
    bad_attrs = list(m["attrs"])
    kinds_used = {_kind(k) for k, _ in bad_attrs}
    companion = None
    if r.random() < 0.5:
        cands = [c for c in COMPANIONS if _kind(c[0][0]) not in kinds_used and not (c[0][0] == "check-lua" and "check-lua" in kinds_used)]
        if cands:
            companion = r.choice(cands)
            comp = [(k, (sc["nil"] if v == "@nil" else v)) for k, v in companion]
            bad_attrs = (comp + bad_attrs) if r.random() < 0.5 else (bad_attrs + comp)
    bad = scenario.SBlock("bad", [("name", "bad")] + bad_attrs, list(m["lines"]), [])
    pos = r.choice(["first", "middle", "last"])
    lst = per[which_file]
    idx = 0 if pos == "first" else len(lst) if pos == "last" else len(lst) // 2
    lst.insert(idx, bad)
    files, ctrl_files = {}, {}
    hosts = [("py", "#"), ("rs", "//"), ("js", "//"), ("sh", "#")]
    bad_path = None
    for fi in range(nfiles):
        ext, op = hosts[(fi + job["rep"]) % len(hosts)]
        path = "%sf%d.%s" % (r.choice(["", "src/", "d/e/"]), fi, ext)
        if per[fi]:
            files[path] = scenario.render_file(per[fi], op)
        ctrl = [b for b in per[fi] if b is not bad]
        if ctrl:
            ctrl_files[path] = scenario.render_file(ctrl, op)
        if fi == which_file:
            bad_path = path
    needs = m["needs"]
    mode = "diff" if "diff" in needs else r.choice(["scan", "scan", "diff"])
    ai = fake_ai.instance()
    ai.begin(lambda req: ("reply", "OK"))
    env = {}
    if "ai-nokey" in needs:
        env.update(ai.env(key=None))
    elif "ai-emptykey" in needs:
        env.update(ai.env(key=""))
    else:
        env.update(ai.env())

    def execute(fs):
        root = run.make_repo(fs)
        try:
            if mode == "diff":
                return run.run(ctx.bin("rel"), [], root, stdin=whole_diff(fs), env=env, cpu_limit=30)
            e = dict(env)
            e.update(TERM)
            return run.run(ctx.bin("rel"), [], root, stdin=None, env=e, cpu_limit=30)
        finally:
            run.rm(root)

    res = execute(files)
    key = h([files, mode, sorted(needs)])
    nontrivial = nhealthy >= 1
    sets = {"malformation": [m["id"].split(":")[0]], "placement": ["%s/%s-file" % (pos, "first" if which_file == 0 else "last")],
            "mode": [mode], "malformation_id": [m["id"]], "companion_rule": [companion[0][0] if companion else "none"]}
    out = []
    if ctrl_files:
        c = execute(ctrl_files)
        if c.rc != 0:
            return [Case(INCONCLUSIVE, key=key, summary="healthy-only control exited %s: %s" % (c.rc, c.err_text()[:200]), evals=2)]
    err = res.err_text()
    problem = None
    if res.cls == "wall-timeout" or endpoint_flake(res):
        return [Case(INCONCLUSIVE, key=key, summary="wall timeout", evals=2)]
    if res.rc == 0:
        problem = ("silent-pass", "exit 0: the malformed rule was treated as passing")
    elif bad_outcome(res):
        problem = ("crash-" + res.cls, "ended %s: %s" % (res.cls, err[:200]))
    elif not err.strip():
        problem = ("no-message", "non-zero exit without any explanation")
    elif res.diagnostics() is not None and "Error" not in err:
        problem = ("diagnostics-instead-of-error", "exit %s with ordinary diagnostics only: %s" % (res.rc, err[:200]))
    elif not (bad_path in err or any(tok and tok in err for tok in m["mention"])):
        problem = ("unexplained", "error text mentions neither the file nor the attribute: %s" % err[:300])
    if problem:
        out.append(Case(VIOLATED, key=key, nontrivial=nontrivial, sig="C13/%s/%s" % (problem[0], m["id"]), sets=sets, evals=2,
                        summary="%s: %s [placement %s of %s file, %d healthy blocks, %s mode]" % (
                            m["id"], problem[1], pos, "first" if which_file == 0 else "last", nhealthy, mode),
                        witness={"files": files_text(files, 2500), "malformation": m["id"], "mode": mode, "observed": res.brief(1500), "job": job}))
    else:
        out.append(Case(HELD, key=key, nontrivial=nontrivial, sets=sets, evals=2, counters={"malformed_runs": 1},
                        sample={"malformation": m["id"], "mode": mode, "healthy_blocks": nhealthy, "exit": res.rc, "stderr": err[:200]}))
    return out


def finalize(agg, tier, coverage):
    n = len(agg["sets"].get("malformation_id", ()))
    return [] if n >= 80 else ["only %d malformations exercised" % n]


LEVEL_TEXT = ("Fault enumeration: every entry of a table of ~100 malformed rule values is injected into generated repositories at "
              "varying placements (first/middle/last block, first/last file, 0-20 healthy neighbours, scan and diff mode) and "
              "the run must fail closed with an explanatory error; a healthy-only control of the same tree must pass, so a "
              "silent pass cannot hide behind an unrelated failure.")
LEVEL_NOTE = "Trusted: the malformation table as a reading of the statement; fake AI endpoint; healthy neighbours produce no error-severity diagnostics."
TECHNIQUE = "runtime monitoring with fault injection: table of malformed rule values x placements, exit-status/stderr oracle with healthy control"
