"""C15 - only files in scope are examined: globs, --ignore and diff paths.

Oracle: a transcription of the four documented glob forms, git itself for "non-git-ignored", and
poisoning: every file outside the expected scope has unbalanced tags or invalid UTF-8, so examining
it cannot stay silent.
"""
import os
import re

from .. import run
from .common import (Case, HELD, VIOLATED, INCONCLUSIVE, TERM, bad_outcome, files_text, h, rng)

ID = "C15"
LEVEL = "exploration"
BUILDS = ["rel"]
BUDGET_S = {"quick": 600, "thorough": 2400}
RULE = ("Random real git repositories (5-40 files, depth <=4; directories named a, b, b/b, names with spaces and dots, hidden "
        "files and directories, dir/, *.gen.py and /rooted ignore patterns spread over .gitignore, .git/info/exclude and the global excludes file) x 0-3 positional globs x 0-3 "
        "--ignore globs drawn from the four documented forms x {no diff, diff inside the globs, diff outside the globs, "
        "diff naming an --ignore'd file, diff that also renames (git mv) one of its files, diff whose only change to an (unbalanced) file is the deletion of its first line} x cwd in {root, a subdirectory} x stdin in {real pty, BLOCKWATCH_TERMINAL_MODE, "
        "pipe}. Some files are symbolic links to regular files. Files in the expected scope carry one healthy block with one line-count violation; every other file is "
        "poisoned (unbalanced tags or invalid UTF-8). Observed: key set of `list` and of the diagnostics, exit status. "
        "Non-trivial = >=2 different exclusion mechanisms at work and >=1 poisoned file; distinct = hash of (tree, argv, mode).")
ASSUMPTIONS = [
    "glob oracle covers only the four documented forms with globset's default semantics (`*` crosses `/`)",
    "git ls-files -co --exclude-standard decides 'not git-ignored'; only simple .gitignore patterns are generated",
    "diffs are produced by real git from a committed base state",
    "sub-directories with a `.git` directory or file of their own (nested checkout markers, written after git produced the diff) are placed "
    "only over sub-trees without git-ignored files: whether outer ignore rules reach into a nested checkout is not decided by the statement",
]

EXTS = ["py", "rs", "js", "md", "go", "sh"]
OPENER = {"py": "#", "rs": "//", "js": "//", "md": None, "go": "//", "sh": "#"}
DIRS = ["", "", "src", "src/core", "docs", "a", "b", "b/b", "a/b", "dir with space", "dots.in.name", "gen", "rooted",
        "src/gen", ".hidden", "src/.cache", "deep/er/still/more", "notes.md", "pkg/build", "gen,old",
        ".github/workflows", ".gitlab", ".hgext"]        # hidden, only reachable through a diff; their names merely *begin* like .git / .hg
STEMS = ["main", "util", "x y", "mod.test", "readme", "b", "a", "gen", "data.gen", "w", "2024,q1", "build"]


def _ext(path):
    base = path.rsplit("/", 1)[-1]
    return "sh" if base in ("Makefile", "makefile") else base.rsplit(".", 1)[-1]     # `#` comments like a shell file


def healthy(path, name):
    """First line: a header that a change may delete (a -U0 diff then has the hunk `@@ -1 +0,0 @@`)."""
    ext = _ext(path)
    if ext == "md":
        return 'header\n\n[//]: # (<block name="%s" line-count="<1">)\n\nword\n\nmore\n\n[//]: # (</block>)\n' % name
    o = OPENER[ext]
    return '%s header\n%s <block name="%s" line-count="<1">\nword\nmore\n%s </block>\n' % (o, o, name, o)


def unbalanced_with_header(path):
    ext = _ext(path)
    if ext == "md":
        return 'header\n\n[//]: # (<block name="probe">)\n\nnever closed\n'
    o = OPENER[ext]
    return '%s header\n%s <block name="probe">\nnever closed\n' % (o, o)


def poisoned(path, r, utf8_only=False):
    ext = _ext(path)
    kind = r.randrange(1, 3) if utf8_only else r.randrange(3)
    if kind == 0:
        return b"\xff\xfe\xfa <block name=\"poison\">\n"
    if ext == "md":
        return ('\n[//]: # (<block name="poison">)\n\nnever closed\n' if kind == 1 else '\n[//]: # (</block>)\n').encode()
    o = OPENER[ext]
    return ('%s <block name="poison">\nnever closed\n' % o if kind == 1 else '%s </block>\n' % o).encode()


def glob_to_re(g):
    """The four documented forms under globset defaults."""
    if g.startswith("**/"):
        return re.compile(r"^(?:.*/)?" + re.escape(g[3:]) + r"$")
    if g.endswith("/**"):
        return re.compile(r"^" + re.escape(g[:-3]) + r"/.*$")
    if g.startswith("*."):
        return re.compile(r"^.*" + re.escape(g[1:]) + r"$")
    return re.compile(r"^" + re.escape(g) + r"$")


def match_any(globs, path):
    return any(glob_to_re(g).match(path) for g in globs)


def gen_globs(r, paths, n):
    out = []
    for _ in range(n):
        p = r.choice(paths)
        kind = r.randrange(6)
        if kind >= 4 and "/" in p:
            # a glob that matches a *directory's* own path (its last component, or the exact path): no file path matches it
            d = p.rsplit("/", 1)[0]
            out.append("**/" + d.rsplit("/", 1)[-1] if kind == 4 else d)
        elif kind == 0:
            out.append("*." + p.rsplit(".", 1)[-1])
        elif kind == 1 and "/" in p:
            parts = p.split("/")
            out.append("/".join(parts[:r.randint(1, len(parts) - 1)]) + "/**")
        elif kind == 2:
            out.append("**/" + p.rsplit("/", 1)[-1])
        else:
            out.append(p)
    return out


def plan(tier, seed):
    n = 300 if tier == "quick" else 4000
    return [{"i": i, "seed": seed, "n": 8} for i in range(n)]


def run_job(job, ctx):
    out = []
    if job.get("k") == "witness-first-lines-deleted":
        return [_witness_first_lines(ctx)]
    if job.get("k") == "witness-global-excludes":
        return [_witness_global_excludes(ctx)]
    for j in range(job["n"]):
        r = rng("c15", job["seed"], job["i"], j)
        c = one_case(ctx, r, dict(job, j=j))
        if c is not None:
            out.append(c)
    return out


def one_case(ctx, r, desc):
    # -- tree ---------------------------------------------------------------------------
    paths = set()
    for _ in range(r.randint(5, 40)):
        d = r.choice(DIRS)
        name = "%s.%s" % (r.choice(STEMS), r.choice(EXTS))
        if r.random() < 0.08:
            name = r.choice([".", ".", ".gitlab-ci-", ".hg-"]) + name
        elif r.random() < 0.06:
            name = r.choice(["Makefile", "makefile"])     # registered by whole name: a path without any dot when the directory has none
        paths.add((d + "/" if d else "") + name)
    paths = sorted(paths)
    gitignore = r.sample(["gen/", "*.gen.py", "/rooted", "src/gen/", "*.gen.rs"], r.randint(0, 3))
    mode = r.choice(["pty", "env", "env", "pipe-diff", "pipe-diff", "pipe-diff", "pipe-empty"])
    globs = gen_globs(r, paths, r.choice([0, 0, 1, 1, 2, 3]))
    ignores = gen_globs(r, paths, r.choice([0, 0, 1, 1, 2, 3]))
    root = run.make_repo({}, real_git=True)
    try:
        # materialise with placeholders to ask git which files are ignored
        run.write_files(root, {p: "placeholder\n" for p in paths})
        # the patterns live in the repository's .gitignore, in .git/info/exclude or in the user's global excludes file
        gi_where = {}
        home_ignore = os.path.join(run.clean_env()["HOME"], ".config", "git", "ignore")
        if os.path.exists(home_ignore):
            os.unlink(home_ignore)
        home_in_repo = r.random() < 0.1       # the home directory is the repository itself (then there is no global excludes file)
        for pat in gitignore:
            gi_where.setdefault(r.choice([".gitignore", ".gitignore", ".git/info/exclude"] + ([] if home_in_repo else ["global"])), []).append(pat)
        for where, pats in gi_where.items():
            if where == "global":
                os.makedirs(os.path.dirname(home_ignore), exist_ok=True)
                with open(home_ignore, "w") as f:
                    f.write("\n".join(pats) + "\n")
            else:
                run.write_files(root, {where: "\n".join(pats) + "\n"})
        listed = run.git(root, "ls-files", "-co", "--exclude-standard", "-z").decode("utf-8").split("\0")
        not_ignored = {p for p in listed if p and p != ".gitignore"}
        hidden = {p for p in paths if any(seg.startswith(".") for seg in p.split("/"))}
        walkable = {p for p in paths if p in not_ignored and p not in hidden}
        tracked = sorted(not_ignored & set(paths))
        # -- diff selection --------------------------------------------------------------
        diff_files = []
        if mode == "pipe-diff":
            cands = tracked
            k = r.randint(1, min(4, len(cands))) if cands else 0
            diff_files = r.sample(cands, k) if k else []
        # the diff may (also, or only) delete a file: a diff that consists of deletions alone names no file to examine, and the
        # positional globs still select theirs
        gone = None
        if mode == "pipe-diff" and r.random() < 0.2:
            gone = "gone_%d.py" % r.randrange(100)
            if r.random() < 0.6:
                diff_files = []
        terminal = mode in ("pty", "env")
        # one of the diff's files may also be renamed (git mv) in the same change: the diff then names it `--- a/<old>` / `+++ b/<new>`
        # and the file in scope is the *new* path
        ren = None
        if diff_files and r.random() < 0.3:
            rp = r.choice(diff_files)
            rd = os.path.dirname(rp) if r.random() < 0.6 else r.choice(["", "src", "b", "a/b", "new dir"])
            rq = (rd + "/" if rd else "") + "moved_%d.%s" % (r.randrange(100), _ext(rp))
            if rq not in paths:
                ren = (rp, rq)
        fin = (lambda x: ren[1] if ren and x == ren[0] else x)
        fin_inv = (lambda x: ren[0] if ren and x == ren[1] else x)
        is_hidden = (lambda x: any(seg.startswith(".") for seg in x.split("/")))
        paths_base = paths
        paths = sorted(fin(x) for x in paths_base)
        hidden_base, hidden = hidden, {x for x in paths if is_hidden(x)}
        not_ignored = {fin(x) for x in not_ignored}
        walkable_base, walkable = walkable, {x for x in paths if x in not_ignored and x not in hidden}
        diff_base, diff_files = diff_files, [fin(x) for x in diff_files]
        # -- expected scope --------------------------------------------------------------
        if globs:
            by_glob = {p for p in walkable if match_any(globs, p)}
        elif terminal:
            by_glob = set(walkable)
        else:
            by_glob = set()
        scope = (by_glob | set(diff_files))
        scope = {p for p in scope if not match_any(ignores, p)}
        files = {}
        names = {}
        # probe: one in-scope file of the diff whose only change is the deletion of its first line and whose tags are unbalanced.
        # Blocks of a file are only *listed* when the diff touches them, so "this file was examined" is observed through the hard
        # error that an unbalanced file must raise.
        probe = None
        if diff_base and r.random() < 0.2:
            cands = [x for x in diff_base if fin(x) == x and x in scope]
            probe = r.choice(cands) if cands else None
        for i, p in enumerate(paths_base):
            if p == probe:
                files[p] = unbalanced_with_header(p).encode()
            elif fin(p) in scope:
                names[fin(p)] = "k%d" % i
                files[p] = healthy(p, names[fin(p)]).encode()
            else:
                # a file that will appear in the diff stays valid UTF-8 (a diff with invalid UTF-8 is
                # rejected as a whole, which is outside this property)
                files[p] = poisoned(p, r, utf8_only=p in diff_base)
        if scope and r.random() < 0.06:
            # one in-scope file is large (1.3 MB of ordinary lines after its block): size is no reason to leave a file out
            bigc = sorted(fin_inv(x) for x in scope if fin_inv(x) in files and x != probe)
            bigp = r.choice(bigc) if bigc else None
        else:
            bigp = None
        if bigp:
            files[bigp] = files[bigp] + (b"\n" if _ext(bigp) == "md" else b"") + ((("pad " * 250 + "\n\n") if _ext(bigp) == "md" else ("%s " % OPENER[_ext(bigp)] + "pad " * 250 + "\n")) * 1300).encode()
        run.write_files(root, files)
        # some files are symbolic links to regular files kept in a hidden directory (never walked): a link is a file
        # under the root like any other, in scope or not by its own path
        links = []
        if r.random() < 0.3:
            for p in r.sample(sorted(walkable_base), min(len(walkable_base), r.randint(1, 2))):
                if p in diff_base:
                    continue      # git diffs a link's target text, not the content
                store = ".lnk/%d.%s" % (len(links), _ext(p))
                run.write_files(root, {store: files[p]})
                os.unlink(os.path.join(root, p))
                os.symlink(os.path.relpath(os.path.join(root, store), os.path.dirname(os.path.join(root, p))), os.path.join(root, p))
                links.append(p)
        if gone:
            run.write_files(root, {gone: healthy(gone, "gone").encode()})
        # entries that name nothing to examine: a binary file that changes, a file whose mode changes, a file that is only renamed
        noise = mode == "pipe-diff" and r.random() < 0.25
        if noise:
            run.write_files(root, {"assets/img.bin": b"\x00\x01\x02PNG\x00" * 40, "tools/run.dat": b"data\n", "assets/old name.dat": b"one\ntwo\nthree\n"})
        run.git(root, "add", "-A")
        run.git(root, "commit", "-q", "-m", "base")
        diff = b""
        if mode == "pipe-diff":
            for p in diff_base:
                full = os.path.join(root, p)
                data = open(full, "rb").read()
                if fin(p) in scope:
                    if p == probe:
                        data = data.split(b"\n", 1)[1]                     # deletion of the file's first line only
                    elif r.random() < 0.4:
                        data = data.replace(b"\nmore\n", b"\n", 1)        # a deletion-only change (with -U0: hunks with nothing on the new side)
                    else:
                        data = data.replace(b"\nword\n", b"\nword\nword two\n", 1)
                else:
                    data = data + b"appended\n"
                with open(full, "wb") as f:
                    f.write(data)
            if noise:
                run.write_files(root, {"assets/img.bin": b"\x00\x01\x03PNG\x00" * 41})
                os.chmod(os.path.join(root, "tools/run.dat"), 0o755)
                run.git(root, "mv", "assets/old name.dat", "assets/new name.dat")
            if gone:
                run.git(root, "rm", "-q", gone)
            if ren:
                os.makedirs(os.path.dirname(os.path.join(root, ren[1])), exist_ok=True)
                run.git(root, "mv", ren[0], ren[1])
            if ren or gone or noise:
                diff = run.git(root, "diff", "HEAD", "-M", "-U%d" % r.choice([0, 1, 3]))
            else:
                diff = run.git(root, "diff", "-U%d" % r.choice([0, 1, 3]))
        # -- run ------------------------------------------------------------------------
        subdirs = sorted({os.path.dirname(p) for p in paths if os.path.dirname(p) and not os.path.dirname(p).startswith(".")
                          and "/." not in os.path.dirname(p) and not (ren and p == ren[1])})
        cwd_rel = r.choice([""] + subdirs[:6]) if r.random() < 0.5 else ""
        cwd = os.path.join(root, cwd_rel) if cwd_rel else root
        # some sub-directories look like checkouts of their own (a nested clone has a `.git` directory, a submodule or linked worktree a
        # `.git` file): their files are still files under the repository root. The markers are written after git has produced the
        # diff, so git's own view of the tree is not affected, and never on the way from the root to the start directory.
        nested = []
        rn = rng("c15-nested", desc.get("seed"), desc.get("i"), desc.get("j"))
        if rn.random() < 0.3:
            alld = set()
            for pth in paths:
                segs = pth.split("/")[:-1]
                for k in range(1, len(segs) + 1):
                    alld.add("/".join(segs[:k]))
            # only over sub-trees without git-ignored files: whether the outer repository's ignore rules reach into a nested checkout is
            # not decided by the statement (git treats a real nested repository as opaque; the walker stops consulting outer rules there)
            cand = sorted(d for d in alld if not is_hidden(d) and not (cwd_rel == d or cwd_rel.startswith(d + "/")) and os.path.isdir(os.path.join(root, d))
                          and all(x in not_ignored for x in paths if x.startswith(d + "/")))
            for d in rn.sample(cand, min(len(cand), rn.choice([1, 1, 2]))):
                mk = os.path.join(root, d, ".git")
                if os.path.lexists(mk):
                    continue
                if rn.random() < 0.5:
                    os.makedirs(mk)
                else:
                    with open(mk, "w") as f:
                        f.write("gitdir: ../.git/modules/%s\n" % os.path.basename(d))
                nested.append(d)
        argv = list(globs)
        for g in ignores:
            argv += ["--ignore", g]
        if r.random() < 0.5:
            r.shuffle(argv) if not ignores else None
        if mode == "pty":
            stdin, env = "pty", {}
        elif mode == "env":
            stdin, env = None, dict(TERM)
        else:
            stdin, env = diff, {}
        if home_in_repo:
            env = dict(env, HOME=root)
        lst = run.run(ctx.bin("rel"), ["list"] + argv, cwd, stdin=stdin, env=env, cpu_limit=60)
        res = run.run(ctx.bin("rel"), argv, cwd, stdin=stdin, env=env, cpu_limit=60)
    finally:
        run.rm(root)
    # -- judge -------------------------------------------------------------------------------
    want = sorted(scope)
    home_ignore = os.path.join(run.clean_env()["HOME"], ".config", "git", "ignore")
    if os.path.exists(home_ignore):
        os.unlink(home_ignore)
    mechanisms = set()
    for p in paths:
        if p in scope:
            continue
        if p in hidden:
            mechanisms.add("hidden")
        elif p not in not_ignored:
            mechanisms.add("gitignore")
        elif match_any(ignores, p):
            mechanisms.add("--ignore")
        elif globs and not match_any(globs, p):
            mechanisms.add("glob")
        elif not terminal and not globs:
            mechanisms.add("not-in-diff")
    npoison = len(paths) - len(scope)
    nontrivial = len(mechanisms) >= 2 and npoison >= 1
    key = h([paths, argv, mode, cwd_rel, sorted(diff_files), gitignore])
    special = sorted({seg for p in diff_files for seg in p.split("/")[:-1] if seg in ("a", "b", "dir with space", "dots.in.name")})
    sets = {"mode": [mode], "mechanisms": sorted(mechanisms), "cwd": ["root" if not cwd_rel else "subdir"],
            "symlinks": ["in-scope" if p in scope else "out-of-scope" for p in links],
            "nested_checkout_markers": [str(len(nested))],
            "ignore_files": sorted(gi_where),
            "diff_noise": (["binary+mode+pure-rename"] if noise else []),
            "deletion_in_diff": ([] if not gone else ["only-deletions" if not diff_files else "with-other-files"]),
            "rename": ([] if not ren else ["same-dir" if os.path.dirname(ren[0]) == os.path.dirname(ren[1]) else "other-dir"]),
            "diff_dirs": special, "nglobs_nignores": ["%d/%d" % (len(globs), len(ignores))]}
    wit = {"paths": paths, "gitignore": gitignore, "argv": argv, "mode": mode, "cwd": cwd_rel, "diff_files": diff_files, "symlinks": links, "nested_git_markers": nested, "renamed": ren, "probe": probe, "deleted_by_diff": gone,
           "expected_scope": want, "diff": diff.decode("utf-8", "replace")[:3000], "desc": desc}

    def bad(sig, summary):
        return Case(VIOLATED, key=key, nontrivial=nontrivial, sig=sig, summary=summary, evals=2, sets=sets,
                    witness=dict(wit, ignore_files={w: ps for w, ps in gi_where.items()}, observed={"list": lst.brief(2500), "run": res.brief(2500)}))

    if lst.cls == "wall-timeout" or res.cls == "wall-timeout":
        return Case(INCONCLUSIVE, key=key, summary="wall timeout", evals=2)
    for rr, what in ((lst, "list"), (res, "run")):
        if bad_outcome(rr) or rr.cls == "usage":
            return bad("C15/%s-%s" % (what, rr.cls), "%s ended %s: %s" % (what, rr.cls, rr.err_text()[:300]))
    if probe:
        sets["probe"] = ["first-line-deleted-U%s" % ("0" if probe in emptied_entries(diff) else "n")]
        named = [re.search(r'file "([^"]+)"', rr.err_text()) for rr in (lst, res)]
        if all(rr.cls == "fail" and rr.diagnostics() is None for rr in (lst, res)) and all(m and m.group(1) == probe for m in named):
            return Case(HELD, key=key, nontrivial=nontrivial, evals=2, sets=sets,
                        counters={"files": len(paths), "poisoned_files": npoison, "in_scope_files": len(want), "probe_rejections": 1})
        rest = sorted(scope - {probe})
        if probe in emptied_entries(diff) and probe not in by_glob and lst.cls == "ok" and lst.listing() is not None and sorted(lst.listing()) == rest:
            d = res.diagnostics() if res.cls in ("fail", "ok") else None
            if (rest and res.cls == "fail" and d is not None and sorted(d) == rest) or (not rest and res.rc == 0 and not res.err.strip()):
                # recorded finding (known_findings.json: first-lines-deleted-U0), labelled only when the whole observation is what that
                # one substitution (entry with a single `+0,0` hunk = deleted file) predicts
                return Case(VIOLATED, key=key, nontrivial=nontrivial, sig="C15/first-lines-deleted-U0", evals=2, sets=sets,
                            summary="%s is named in the diff (single hunk `+0,0`: first line deleted, -U0) but not examined: its unbalanced tags pass" % probe,
                            witness=dict(wit, probe=probe, observed={"list": lst.brief(2500), "run": res.brief(2500)}))
        return bad("C15/diff-file-not-examined", "%s is named in the diff and has unbalanced tags, but list/run ended %s/%s: %s" % (
            probe, lst.cls, res.cls, (lst.err_text() or res.err_text())[:300]))
    if lst.cls != "ok":
        why = _why(lst.err_text(), paths, scope, diff_files)
        return bad("C15/list-error/" + why, "`list` failed although every file in scope is healthy (%s): %s" % (why, lst.err_text()[:300]))
    listing = lst.listing()
    if listing is None:
        return bad("C15/list-not-json", "list stdout not JSON")
    got = sorted(listing)
    if got != want:
        extra = [p for p in got if p not in want]
        missing = [p for p in want if p not in got]
        cls = "extra" if extra and not missing else "missing" if missing and not extra else "both"
        return bad("C15/list-scope-%s/%s" % (cls, _mech_of((extra or missing)[0], hidden, not_ignored, ignores, globs, diff_files, links)),
                   "files examined %s != expected scope %s (extra %s, missing %s; symbolic links %s)" % (got[:8], want[:8], extra[:4], missing[:4], links))
    if want:
        d = res.diagnostics()
        if res.cls != "fail" or d is None:
            why = _why(res.err_text(), paths, scope, diff_files)
            return bad("C15/run-error/" + why, "validation did not report the expected diagnostics (%s): exit %s, %s" % (why, res.rc, res.err_text()[:300]))
        if sorted(d) != want:
            return bad("C15/diag-scope", "diagnostics for %s, expected %s" % (sorted(d)[:8], want[:8]))
    else:
        if res.rc != 0 or res.err.strip():
            return bad("C15/run-empty-scope", "empty scope but exit %s / stderr %s" % (res.rc, res.err_text()[:200]))
    sample = None
    if nontrivial:
        sample = {"paths": paths[:12], "gitignore": gitignore, "argv": argv, "mode": mode, "cwd": cwd_rel or ".",
                  "diff_files": diff_files, "in_scope": want[:8], "poisoned": npoison}
    return Case(HELD, key=key, nontrivial=nontrivial, evals=2, sets=sets, sample=sample,
                counters={"files": len(paths), "poisoned_files": npoison, "in_scope_files": len(want)})


def _ignored_by(patterns, path):
    """The five generated ignore patterns, as git reads them (relative to the repository root)."""
    segs = path.split("/")
    for pat in patterns:
        if pat == "gen/" and "gen" in segs[:-1]:
            return True
        if pat == "src/gen/" and path.startswith("src/gen/"):
            return True
        if pat == "/rooted" and segs[0] == "rooted":
            return True
        if pat in ("*.gen.py", "*.gen.rs") and any(seg.endswith(pat[1:]) for seg in segs):
            return True
    return False


def emptied_entries(diff):
    """Files whose diff entry is a single hunk with nothing on the new side (`+0,0`) although the file is not deleted
    (`+++` is not /dev/null): what `git diff --unified=0` prints when only the first line(s) of a file are deleted."""
    out = set()
    cur, hunks = None, []

    def flush():
        if cur and len(hunks) == 1 and re.match(r"@@ -\d+(,\d+)? \+0,0 @@", hunks[0]):
            out.add(cur)
    for line in diff.decode("utf-8", "replace").split("\n"):
        if line.startswith("diff --git "):
            flush()
            cur, hunks = None, []
        elif line.startswith("+++ ") and not hunks:
            t = line[4:].split("\t")[0]
            cur = None if t == "/dev/null" else (t[2:] if t.startswith("b/") else t)
        elif line.startswith("@@ "):
            hunks.append(line)
    flush()
    return out


def _witness_global_excludes(ctx):
    """Regression witness of a repaired defect (bff308b): a pattern with a slash in the user's global excludes file used to be
    resolved against the start directory, so from a sub-directory the ignored file was examined."""
    home_ignore = os.path.join(run.clean_env()["HOME"], ".config", "git", "ignore")
    os.makedirs(os.path.dirname(home_ignore), exist_ok=True)
    with open(home_ignore, "w") as f:
        f.write("src/gen/\n")
    root = run.make_repo({"src/gen/w.go": '// <block name="poison">\nnever closed\n', "a/ok.go": healthy("a/ok.go", "k0")}, real_git=True)
    try:
        at_root = run.run(ctx.bin("rel"), ["list"], root, stdin=None, env=dict(TERM))
        in_sub = run.run(ctx.bin("rel"), ["list"], os.path.join(root, "a"), stdin=None, env=dict(TERM))
    finally:
        run.rm(root)
        os.unlink(home_ignore)
    key = h(["witness-global-excludes"])
    ok = all(x.cls == "ok" and x.listing() is not None and sorted(x.listing()) == ["a/ok.go"] for x in (at_root, in_sub))
    if ok:
        return Case(HELD, key=key, nontrivial=False, evals=2, counters={"witness_global_excludes_ok": 1})
    return Case(VIOLATED, key=key, nontrivial=False, evals=2, sig="C15/global-excludes-anchored-from-subdir",
                summary="global excludes file with `src/gen/`: from the root %s, from sub-directory a/ %s: %s" % (
                    at_root.cls, in_sub.cls, in_sub.err_text()[:200]),
                witness={"global_excludes": "src/gen/", "observed": {"root": at_root.brief(800), "subdir": in_sub.brief(800)}})


def _witness_first_lines(ctx):
    """Deterministic reproduction of the recorded finding: a -U0 diff that deletes only a file's first line."""
    root = run.make_repo({}, real_git=True)
    try:
        run.write_files(root, {"pkg/a.py": healthy("pkg/a.py", "k0").encode(), "pkg/other.py": b"x = 1\n"})
        run.git(root, "add", "-A")
        run.git(root, "commit", "-q", "-m", "base")
        run.write_files(root, {"pkg/a.py": healthy("pkg/a.py", "k0").encode().split(b"\n", 1)[1]})
        diff = run.git(root, "diff", "-U0")
        lst = run.run(ctx.bin("rel"), ["list"], root, stdin=diff, env={})
    finally:
        run.rm(root)
    key = h(["witness-first-lines-deleted"])
    listing = lst.listing() if lst.cls == "ok" else None
    if listing is not None and sorted(listing) == ["pkg/a.py"]:
        return Case(HELD, key=key, nontrivial=False, evals=1, counters={"witness_first_lines_deleted_ok": 1})
    return Case(VIOLATED, key=key, nontrivial=False, evals=1, sig="C15/first-lines-deleted-U0",
                summary="`git diff -U0` deleting only line 1 of pkg/a.py: the file named in the diff is not examined (list: %s)" % lst.brief(300),
                witness={"diff": diff.decode(), "observed": lst.brief(2000)})


def _why(err, paths, scope, diff_files):
    """Classifies an error message: which kind of file made it fail."""
    m = re.search(r'file "([^"]+)"', err)
    if m:
        p = m.group(1)
        if p not in paths:
            return "path-not-in-tree"
        if p not in scope:
            return "out-of-scope-file-examined"
        return "in-scope-file"
    return "other"


def _mech_of(p, hidden, not_ignored, ignores, globs, diff_files, links=()):
    if p in hidden:
        return "hidden"
    if p not in not_ignored:
        return "gitignored"
    if match_any(ignores, p):
        return "--ignore"
    if p in links:
        return "symlink"
    if p in diff_files:
        return "diff-file"
    return "glob"


LEVEL_TEXT = ("Sampling over trees, glob sets, diffs, working directories and stdin kinds, with a poisoning monitor: any file outside "
              "the expected scope that blockwatch so much as parses makes the run fail, and every file inside it must show up "
              "in both the listing and the diagnostics. Real git produces the diffs and decides git-ignore; a real pty is "
              "used for the interactive mode.")
LEVEL_NOTE = "Trusted: the four-form glob transcription, git, the poisoning scheme (unbalanced tags / invalid UTF-8 => error)."
TECHNIQUE = "runtime monitoring: scope oracle (glob transcription + git) with poisoned out-of-scope files, over real-git repositories, pty/pipe/env stdin"
