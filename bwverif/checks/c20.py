"""C20 - same input, same verdict: runs are deterministic and location-independent."""
import json
import os
import re

from .. import fake_ai, run, scenario
from .common import (Case, HELD, VIOLATED, INCONCLUSIVE, TERM, bad_outcome, files_text, h, rng, tsan_collect, tsan_env)
from . import c11

ID = "C20"
LEVEL = "exploration"
BUILDS = {"quick": ["rel"], "thorough": ["rel", "tsan"]}
OPTIONAL_BUILDS = ["tsan"]
BUDGET_S = {"quick": 600, "thorough": 2400}
RULE = ("Generated repositories (C11's generator: 2-6 files, all seven validators, mixed severities; half of them with an "
        "`affects` diff + `**` glob; a quarter with one malformed rule so that an Err races with diagnostics) are executed "
        "8 (quick) / 16 (thorough) times each under perturbations that must not matter: fresh process (new SipHash keys), "
        "1 core vs all cores, TOKIO_WORKER_THREADS 1 vs 16, files created in a different order, diff file sections "
        "permuted, the AI endpoint answering at once or late (so that AI and Lua tasks finish in either order), cwd = root vs a subdirectory, validation vs `list`. Exit status and the canonicalised multiset of "
        "diagnostics (whole diagnostic objects) / listed blocks must be identical; error text is not compared. Thorough "
        "adds a ThreadSanitizer slice (a report seen in >=2 of 5 repeats is a violation, a single one inconclusive). "
        "A case is one repository; non-trivial = >=3 files and >=3 validators reporting; distinct = hash of files + diff.")
ASSUMPTIONS = ["Lua and AI verdicts are deterministic by construction (constant scripts, replies scripted per block token)",
               "script paths are absolute, so the location-independence clause applies to every generated rule set"]

TSAN_RE = re.compile(r"WARNING: ThreadSanitizer: ([a-z -]+)")


def plan(tier, seed):
    n = 150 if tier == "quick" else 1500
    jobs = [{"i": i, "seed": seed, "n": 6, "reps": 8 if tier == "quick" else 16, "flavour": "rel"} for i in range(n)]
    if tier == "thorough":
        jobs += [{"i": i, "seed": seed, "n": 2, "reps": 5, "flavour": "tsan"} for i in range(40)]
    return jobs


def canon_diags(res):
    """Canonical multiset of diagnostics: sorted list of (file, json of diagnostic)."""
    err = res.err_text()
    if not err.strip():
        return []
    d = res.diagnostics()
    if d is None:
        return "ERROR-TEXT"       # an Err: only the exit status is compared
    out = []
    for f, lst in d.items():
        for x in lst:
            out.append((f, json.dumps(x, sort_keys=True)))
    return sorted(out)


def canon_list(res):
    l = res.listing()
    if l is None:
        return "ERROR-TEXT" if res.rc != 0 else "NOT-JSON"
    return sorted((f, json.dumps(sorted(v, key=lambda b: (b.get("line", 0), b.get("column", 0), json.dumps(b, sort_keys=True))), sort_keys=True))
                  for f, v in l.items())


def permute_diff(diff, r):
    secs = re.split(r"(?m)^(?=diff --git )", diff)
    secs = [s for s in secs if s]
    r.shuffle(secs)
    return "".join(secs)


def run_job(job, ctx):
    fl = job["flavour"]
    if fl not in ctx.bins:
        return [Case(INCONCLUSIVE, key=h(job), summary="build %s unavailable" % fl, evals=0)]
    out = []
    sc = c11.scripts()
    ncpu = os.cpu_count() or 1
    for j in range(job["n"]):
        r = rng("c20", job["seed"], job["i"], j, fl)
        if job["i"] % 20 == 3 and j == 0:
            s = scenario.gen_scenario(r, sc, nfiles=r.choice([70, 150]), min_blocks=1, max_blocks=2)     # a wide repository
        else:
            s = scenario.gen_scenario(r, sc, nfiles=r.randint(2, 6), min_blocks=1, max_blocks=6)
        diff = scenario.add_affects(r, s) if r.random() < 0.5 else ""
        malformed = r.random() < 0.25
        if malformed:
            path = r.choice(s.order)
            opener = s.files[path].split(" ", 1)[0]
            attr = r.choice(['line-count="oops"', 'keep-sorted="sideways"', 'line-pattern="("', 'check-lua=""', 'severity="loud" line-count="<0"'])
            s.files[path] += "%s <block name=\"mal\" %s>\nq\n%s </block>\n" % (opener, attr, opener)
        ai = fake_ai.instance()
        args = ["**"] if diff else []
        if diff and r.random() < 0.5:
            args = r.choice([["**"], []]) + ["--ignore", r.choice(s.order)]     # options are part of the input
        subdirs = sorted({os.path.dirname(p) for p in s.files if os.path.dirname(p)})
        results = []
        configs = []
        for k in range(job["reps"]):
            listing = (k % 4 == 3)
            cfg = {"workers": r.choice([None, "1", "16"]), "affinity": r.choice([None, None, "one-core"]),
                   "order": "shuffled" if k % 2 else "given", "diff_order": "permuted" if (diff and k % 3 == 2) else "given",
                   "cwd": r.choice(subdirs) if (subdirs and k % 3 == 1) else "", "mode": "list" if listing else "run"}
            if k == 0:
                cfg.update({"workers": None, "affinity": None, "cwd": "", "mode": "run"})
            if k == 3:
                cfg.update({"workers": None, "affinity": None, "cwd": ""})
            # the endpoint answers at once or late, so that the AI task finishes before or after the Lua tasks
            cfg["ai_delay"] = r.choice([0, 0, 0.12])
            ai.begin(scenario.ai_script(s, {tok: cfg["ai_delay"] for tok in s.ai} if cfg["ai_delay"] else None))
            env = dict(ai.env())
            if not diff:
                env.update(TERM)
            if cfg["workers"]:
                env["TOKIO_WORKER_THREADS"] = cfg["workers"]
            tsan_dir = None
            if fl == "tsan":
                tsan_dir = run.fresh_dir("tsan")
                tsan_env(env, tsan_dir)
            order = list(s.files)
            if cfg["order"] == "shuffled":
                r.shuffle(order)
            root = run.make_repo({p: s.files[p] for p in order})
            # the user's home directory is the repository itself, one of its sub-directories, or elsewhere (must not matter); likewise
            # other ambient variables
            cfg["home"] = "elsewhere" if k in (0, 3) else r.choice(["elsewhere", "elsewhere", "repo-root", "repo-subdir", "unset"])
            if cfg["home"] == "repo-root":
                env["HOME"] = root
            elif cfg["home"] == "repo-subdir" and subdirs:
                env["HOME"] = os.path.join(root, subdirs[0])
            elif cfg["home"] == "unset":
                env["HOME"] = None
            if k % 5 == 4:
                env.update({"NO_COLOR": "1", "RUST_LOG": "debug", "CI": "true", "LANG": "tr_TR.UTF-8", "LC_ALL": "tr_TR.UTF-8", "COLUMNS": "20",
                            "PWD": "/", "OLDPWD": root, "GIT_DIR": "/nonexistent/.git", "GIT_WORK_TREE": "/nonexistent", "TMPDIR": "/nonexistent-tmp",
                            "XDG_CONFIG_HOME": root, "RUST_BACKTRACE": "0", "TERM": "dumb", "USER": "nobody"})
            d = diff
            if cfg["diff_order"] == "permuted":
                d = permute_diff(diff, r)
            try:
                res = run.run(ctx.bins[fl], (["list"] if listing else []) + args, os.path.join(root, cfg["cwd"]) if cfg["cwd"] else root,
                              stdin=d.encode("utf-8") if diff else None, env=env, cpu_limit=60,
                              affinity={r.randrange(ncpu)} if cfg["affinity"] else None)
            finally:
                run.rm(root)
            res.sig = tsan_collect(tsan_dir)[0] if tsan_dir else []
            results.append(res)
            configs.append(cfg)
        out.append(judge(s, diff, malformed, results, configs, dict(job, j=j), fl))
    return out


def judge(s, diff, malformed, results, configs, desc, fl):
    key = h([s.files, diff])
    nfiles = len(s.files)
    vals = s.validators_active()
    nontrivial = nfiles >= 3 and len(vals) >= 3
    sets = {"perturbations": sorted({"%s/%s/%s/%s/%s/%s/%s" % (c["workers"] or "dflt", c["affinity"] or "all", c["order"], c["diff_order"],
                                                            "sub" if c["cwd"] else "root", c.get("home", "-"), "ai-late" if c.get("ai_delay") else "ai-fast") for c in configs}),
            "kind": ["malformed" if malformed else "clean", "diff" if diff else "scan"], "flavour": [fl]}
    wit = {"files": files_text(s.files, 2000), "diff": diff[:2000], "malformed": malformed, "desc": desc}
    for r_ in results:
        if r_.cls == "wall-timeout":
            return Case(INCONCLUSIVE, key=key, summary="wall timeout", evals=len(results))
        if b"Connection timed out (os error 110)" in r_.err and b"127.0.0.1" in r_.err:
            # the harness's own endpoint did not accept a connection in time (loaded machine): nothing learnt about blockwatch
            return Case(INCONCLUSIVE, key=key, summary="fake AI endpoint did not accept a connection in time", evals=len(results))
    # TSan: reproducible report = violation, single = inconclusive
    if fl == "tsan":
        reports = [list(r_.sig or []) for r_ in results]
        hit = [k for k, rp in enumerate(reports) if rp]
        if len(hit) >= 2:
            kinds = sorted({x.strip() for rp in reports for x in rp})
            return Case(VIOLATED, key=key, nontrivial=nontrivial, sig="C20/tsan/%s" % "+".join(kinds), sets=sets, evals=len(results),
                        summary="ThreadSanitizer reported %s in %d of %d repeats: %s" % (kinds, len(hit), len(results), results[hit[0]].err_text()[:600]),
                        witness=dict(wit, observed=results[hit[0]].brief(4000)))
        if len(hit) == 1:
            return Case(INCONCLUSIVE, key=key, summary="single unreproduced TSan report: %s" % results[hit[0]].err_text()[:300], evals=len(results))
    base_run = base_list = None
    key_orders, diag_orders = set(), set()
    for res, cfg in zip(results, configs):
        if bad_outcome(res) or res.cls == "usage":
            return Case(VIOLATED, key=key, nontrivial=nontrivial, sig="C20/run-%s" % res.cls, sets=sets, evals=len(results),
                        summary="execution ended %s under %s: %s" % (res.cls, cfg, res.err_text()[:300]), witness=dict(wit, config=cfg, observed=res.brief(2500)))
        if cfg["mode"] == "list":
            obs = (res.rc, canon_list(res))
            if base_list is None:
                base_list = (obs, cfg, res)
            elif obs != base_list[0]:
                return _differ(key, nontrivial, sets, wit, "list", base_list, (obs, cfg, res), len(results))
        else:
            obs = (res.rc, canon_diags(res))
            d = res.diagnostics() if res.err.strip() else None
            if d:
                key_orders.add(" ".join(d))
                for f, lst in d.items():
                    if len(lst) >= 3:
                        diag_orders.add(f + ":" + ",".join(x.get("code", "?")[:6] + str(x.get("range", {}).get("start", {}).get("line")) for x in lst))
            if base_run is None:
                base_run = (obs, cfg, res)
            elif obs != base_run[0]:
                return _differ(key, nontrivial, sets, wit, "run", base_run, (obs, cfg, res), len(results))
    if malformed and base_run and base_run[0][0] == 0:
        pass    # C13's subject, not ours
    sets["stderr_key_orders"] = [h(x) for x in key_orders] if len(key_orders) > 1 else []
    sets["per_file_diag_orders"] = [h(x) for x in diag_orders] if len(diag_orders) > 1 else []
    return Case(HELD, key=key, nontrivial=nontrivial, sets=sets, evals=len(results),
                counters={"repositories": 1, "executions": len(results), "repos_with_varied_key_order": 1 if len(key_orders) > 1 else 0,
                          "repos_with_varied_diag_order": 1 if len(diag_orders) > 1 else 0},
                sample={"files": sorted(s.files), "validators": vals, "exit": base_run[0][0] if base_run else None,
                        "distinct_stderr_key_orders": len(key_orders), "distinct_per_file_orders": len(diag_orders),
                        "configs": configs[:3]} if nontrivial else None)


def _differ(key, nontrivial, sets, wit, what, a, b, n):
    (obs_a, cfg_a, res_a), (obs_b, cfg_b, res_b) = a, b
    if obs_a[0] != obs_b[0]:
        kind = "exit-status"
    else:
        kind = "diagnostics" if what == "run" else "listed-blocks"
    changed = sorted(k for k in cfg_a if cfg_a[k] != cfg_b[k])
    return Case(VIOLATED, key=key, nontrivial=nontrivial, sig="C20/%s-differs" % kind, sets=sets, evals=n,
                summary="same input, different %s: exit %s vs %s; perturbation differing in %s (%s vs %s)" % (
                    kind, obs_a[0], obs_b[0], changed, cfg_a, cfg_b),
                witness=dict(wit, config_a=cfg_a, config_b=cfg_b, observed_a=res_a.brief(2500), observed_b=res_b.brief(2500)))


def finalize(agg, tier, coverage):
    problems = []
    if len(agg["sets"].get("stderr_key_orders", ())) < 2:
        problems.append("hash order never varied between executions (only %d stderr key orders seen)" % len(agg["sets"].get("stderr_key_orders", ())))
    if len(agg["sets"].get("per_file_diag_orders", ())) < 2:
        problems.append("schedule/detection order never varied (only %d per-file diagnostic orders seen)" % len(agg["sets"].get("per_file_diag_orders", ())))
    return problems


LEVEL_TEXT = ("Metamorphic sampling: each generated repository is executed 8-16 times under perturbations of hashing seeds, core "
              "count, runtime workers, file creation order, diff section order, working directory and mode; exit status and "
              "canonical diagnostics/listings must coincide. Evidence counts the distinct stderr key orders and per-file "
              "diagnostic orders actually observed (proof that hash and schedule order varied); a run that saw only one "
              "order is inconclusive. Thorough adds a ThreadSanitizer slice.")
LEVEL_NOTE = "Trusted: deterministic fake AI replies and constant Lua scripts; comparison ignores error text by design."
TECHNIQUE = "runtime monitoring: metamorphic repeat-under-perturbation oracle (hash seeds, cores, workers, file/diff order, cwd) + TSan slice"
