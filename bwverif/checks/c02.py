"""C02 - diff mode validates exactly the touched blocks, with full-scan verdicts.

Oracle: every block gets exactly one edit class by construction (inside / start-tag attributes only /
end-tag only / outside / untouched), cross-checked against the reference diff interpreter; the
differential part compares the diff-mode diagnostics of selected blocks with a full scan of the same
working tree.
"""
import json
import os
import re

from .. import difflab, run, scenario, udiff
from ..fb import render_attrs
from .common import (Case, HELD, VIOLATED, INCONCLUSIVE, TERM, bad_outcome, diag_list, files_text, h, lua_script, rng)
from . import c01, c11

ID = "C02"
LEVEL = "exploration"
BUILDS = ["rel"]
BUDGET_S = {"quick": 600, "thorough": 3000}
RULE = ("Repositories of 1-4 files (7 hosts) whose uniquely named blocks carry random sort / unique / pattern / count / Lua rules "
        "(violating or not, so untouched blocks have pre-existing violations). Each block receives one edit class: INSIDE "
        "(content line inserted, deleted or replaced), TAG+INSIDE (an attribute and a content line), TAG-ONLY (one digit inside an attribute value of the start tag; also "
        "on line k of a multi-line tag), END-ONLY (text added inside the end-tag comment), OUTSIDE (filler code not adjoining "
        "any tag) or none. Shared-line layouts (`/* <block ..> */ code /* </block> */`, optionally after multi-byte prose) "
        "get single-character edits inside the tag, in the code and in the end comment. Real git produces the diff "
        "(-U0..-U10). Observed: blocks listed and is_content_modified in diff mode (exactly INSIDE+TAG-ONLY, modified iff "
        "INSIDE), diagnostics of selected blocks == a full scan of the same tree, with 0-2 extra globs adding every block of "
        "the matching files. A case is one state pair; non-trivial = >=2 different edit classes and a pre-existing violation "
        "in an unselected block; distinct = hash of (diff, argv).")
ASSUMPTIONS = [
    "edit classes are assigned by construction and cross-checked with bwverif.udiff; cases where git's alignment disagrees are scored don't-care",
    "TAG-ONLY edits replace one digit strictly inside `<block ...>` or delete the tag's last attribute (text directly in front of `>`); edits abutting the `<` are not generated",
    "the C01 known finding (pure deletions located at old-file line numbers) is labelled through the same defect model",
]

INSIDE, TAGONLY, ENDONLY, OUTSIDE, NONE, BOTH = "inside", "tag-only", "end-only", "outside", "none", "tag+inside"
# no SQL host here: editing a `-- <block ..>` line puts `--- ` into a hunk body, which is C01's recorded acceptance finding
HOSTS = [("py", "#"), ("rb", "#"), ("sh", "#"), ("rs", "//"), ("go", "//"), ("js", "//"), ("toml", "#")]
FILLER = {"py": "pad = %d", "rb": "pad = %d", "sh": "pad=%d", "rs": "const PAD%d: u8 = 0;", "go": "var pad%d = 0", "js": "let pad%d = 0;",
          "sql": "SELECT %d;", "toml": "pad%d = 0"}
MSG_RE = scenario.MSG_RE


def plan(tier, seed):
    n = 350 if tier == "quick" else 6000
    return [{"i": i, "seed": seed, "n": 6} for i in range(n)]


class B2:
    """A block of a C02 file."""

    def __init__(self, name, attrs, lines, layout):
        self.name, self.attrs, self.lines, self.layout = name, attrs, lines, layout
        self.cls = NONE


def gen_file(r, fi, nblocks, scripts, counter):
    ext, op = r.choice(HOSTS)
    path = "%sg%d.%s" % (r.choice(["", "", "src/", "a/", "b/"]), fi, ext)
    blocks = []
    for _ in range(nblocks):
        counter[0] += 1
        sb = scenario.gen_block(r, "n%d" % counter[0], scripts, use_ai=False, use_lua=True, bogus_severity=False)
        attrs = [(k, v) for k, v in sb.attrs]
        attrs.insert(1, ("data-rev", str(r.randint(1, 8))))
        if r.random() < 0.08:
            attrs.append(("data-pad", "p" * r.choice([900, 1100, 2500])))      # tag lines longer than 1 KiB
        if r.random() < 0.3:
            attrs.append(("data-tail", r.choice([None, "t%d" % counter[0]])))   # last attribute: a TAG-ONLY edit may delete it (text right in front of `>`)
        layout = "line"
        if ext in ("rs", "go", "js") and r.random() < 0.25:
            layout = r.choice(["shared", "shared-mb", "mltag", "mltag-late", "mlcomment", "mlcomment"])
        lines = sb.lines
        if layout.startswith("shared"):
            lines = [FILLER[ext] % (1000 + counter[0])]
            attrs = [(k, v) for k, v in attrs if k != "keep-sorted-format"]
        nb = B2(sb.name, attrs, list(lines), layout)
        # now and then a one-line block shares its line with the previous one-line block (sibling blocks on one source line)
        if layout == "shared" and blocks and blocks[-1].layout == "shared" and r.random() < 0.6:
            nb.glue = True
        blocks.append(nb)
        if layout == "shared" and r.random() < 0.5 and len(blocks) < nblocks + 3:
            counter[0] += 1
            sb2 = scenario.gen_block(r, "n%d" % counter[0], scripts, use_ai=False, use_lua=True, bogus_severity=False)
            a2 = [(k, v) for k, v in sb2.attrs if k != "keep-sorted-format"]
            a2.insert(1, ("data-rev", str(r.randint(1, 8))))
            twin = B2(sb2.name, a2, [FILLER[ext] % (1000 + counter[0])], "shared")
            twin.glue = True
            blocks.append(twin)
    return path, ext, op, blocks


def render(ext, op, blocks, fill, tail=True):
    """-> (lines, info) where info[name] = dict(s1,s2,e1,e2, tag_line, layout)."""
    out, info = [], {}

    def pad(k=2):
        for _ in range(k):
            fill[0] += 1
            out.append(FILLER[ext] % fill[0])

    pad(3)
    glue_to = None
    for b in blocks:
        if not b.layout.startswith("shared"):
            glue_to = None
        if b.layout == "line":
            s = len(out) + 1
            out.append("%s <block %s>" % (op, render_attrs(b.attrs)))
            for l in b.lines:
                out.append(l)
            out.append("%s </block>%s" % (op, getattr(b, "end_suffix", "")))
            info[b.name] = {"s1": s, "s2": s, "e1": len(out), "e2": len(out)}
        elif b.layout in ("shared", "shared-mb"):
            prose = "日本語のコメントです — " if b.layout == "shared-mb" else ""
            text = "/* %s<block %s> */ %s /* </block>%s */" % (prose, render_attrs(b.attrs), b.lines[0], getattr(b, "end_suffix", ""))
            if getattr(b, "glue", False) and glue_to is not None:
                # a sibling block on the very line of the previous one-line block
                out[glue_to - 1] += " " + text
                s = glue_to
            else:
                s = len(out) + 1
                out.append(text)
            info[b.name] = {"s1": s, "s2": s, "e1": s, "e2": s}
            glue_to = s
            if not (tail or b is not blocks[-1]):
                continue
            if blocks.index(b) + 1 < len(blocks) and getattr(blocks[blocks.index(b) + 1], "glue", False):
                continue          # the next block joins this line: no filler in between
        elif b.layout == "mlcomment":
            # `/* <block ..>` NEWLINE `   free text N */`: the content starts on a later line than the tag
            s = len(out) + 1
            out.append("/* <block %s>" % render_attrs(b.attrs))
            out.append("   free text %s */" % getattr(b, "free_text", "0"))
            s2 = len(out)
            for l in b.lines:
                out.append(l)
            out.append("// </block>%s" % getattr(b, "end_suffix", ""))
            info[b.name] = {"s1": s, "s2": s2, "e1": len(out), "e2": len(out), "tagline": s}
        else:   # mltag / mltag-late (the tag opens far to the right, after code; its attributes continue at the left margin)
            s = len(out) + 1
            late = b.layout == "mltag-late"
            fill[0] += 1
            out.append(((FILLER[ext] % fill[0]) + "   /* <block") if late else "/* <block")
            for k, v in b.attrs:
                out.append((" " if late else "     ") + (k if v is None else '%s="%s"' % (k, v)))
            out.append(" > */" if late else "   > */")
            s2 = len(out)
            for l in b.lines:
                out.append(l)
            out.append("%s </block>%s" % ("//", getattr(b, "end_suffix", "")))
            info[b.name] = {"s1": s, "s2": s2, "e1": len(out), "e2": len(out)}
        if tail or b is not blocks[-1]:
            pad(3)
    return out, info


def bump_rev(b):
    for i, (k, v) in enumerate(b.attrs):
        if k == "data-rev":
            b.attrs[i] = (k, str((int(v) % 8) + 1))


def one_case(ctx, r, desc):
    scripts = c11.scripts()
    counter = [0]
    files = []
    for fi in range(r.choice([1, 2, 2, 3, 4])):
        files.append(gen_file(r, fi, r.randint(1, 6), scripts, counter))
    fillA = [0]
    stateA = {}
    # one file may end with its last block's end tag and *no* final newline; the new state then adds the newline (and maybe a line)
    no_eol = r.choice([f[0] for f in files]) if r.random() < 0.2 else None
    for path, ext, op, blocks in files:
        lines, info = render(ext, op, blocks, fillA, tail=(path != no_eol))
        stateA[path] = (lines, info)
    base_files = {p: "\n".join(l) + ("" if p == no_eol else "\n") for p, (l, _i) in stateA.items()}
    # variant: the change consists of nothing but the deletion of another file; with path arguments the matching files are
    # still validated in full (no block is touched by the diff)
    only_deletion = r.random() < 0.08
    if only_deletion:
        base_files["zz_gone.py"] = "# <block name=\"gone\">\nx = 1\n# </block>\n"
    root = run.make_repo(base_files, real_git=True, commit=True)
    try:
        # ---- assign edit classes and build state B -------------------------------------------------
        fillB = [0]
        stateB = {}
        classes = {}
        outside_edit = {}
        for path, ext, op, blocks in files:
            for b in blocks:
                x = r.random() if not only_deletion else 0.99
                if x < 0.25:
                    b.cls = INSIDE
                    if r.random() < 0.3 and not b.layout.startswith("shared"):
                        b.cls = BOTH          # an attribute of the start tag *and* a content line are edited
                elif x < 0.42:
                    b.cls = TAGONLY
                elif x < 0.55:
                    b.cls = ENDONLY
                else:
                    b.cls = NONE
                if b.cls == BOTH and b.layout == "mlcomment" and r.random() < 0.6:
                    b.free_text = str(r.randint(1, 9))      # edit inside the start comment but outside the tag (+ content below)
                    b.comment_edit = True
                elif b.cls == BOTH:
                    bump_rev(b)
                if b.cls in (INSIDE, BOTH):
                    if b.layout.startswith("shared"):
                        b.lines = [b.lines[0].replace("= 0", "= 1") if "= 0" in b.lines[0] else b.lines[0] + " "]
                        b.how = "shared-char"
                    else:
                        how = r.choice(["insert", "insert", "delete", "replace", "blank"]) if b.lines else "insert"
                        w = r.choice(scenario.WORDS)
                        if dict(b.attrs).get("keep-sorted-format") == "numeric":
                            w = str(r.choice([0, 1, 4, 7, 11, 2.5]))     # keep numeric blocks well-formed
                        if how == "insert":
                            b.lines.insert(r.randint(0, len(b.lines)), w)
                        elif how == "delete":
                            del b.lines[r.randrange(len(b.lines))]
                        elif how == "blank":
                            # a content line replaced 1:1 by an empty line (git: `-text` / `+`)
                            ks = [k for k in range(len(b.lines)) if b.lines[k].strip()]
                            if ks:
                                b.lines[r.choice(ks)] = ""
                            else:
                                b.lines.insert(0, w)
                        else:
                            k = r.randrange(len(b.lines))
                            numeric = dict(b.attrs).get("keep-sorted-format") == "numeric"
                            b.lines[k] = w if b.lines[k] != w else (str(float(w) + 1) if numeric else w + "x")
                        b.how = how
                        if r.random() < 0.25 and how in ("insert", "replace"):
                            # the same change also rewords the end-tag line (words after the tag, inside its comment): still a content change
                            b.end_suffix = " v%d" % r.randint(2, 9)
                elif b.cls == TAGONLY:
                    if b.attrs and b.attrs[-1][0] == "data-tail" and b.layout == "line" and r.random() < 0.6:
                        b.attrs.pop()         # the last attribute is deleted: the only change inside the tag sits right in front of its `>`
                    else:
                        bump_rev(b)
                elif b.cls == ENDONLY:
                    b.end_suffix = " v%d" % r.randint(2, 9)
                classes[(path, b.name)] = b.cls
            lines, info = render(ext, op, blocks, fillB, tail=(path != no_eol))
            if path == no_eol and r.random() < 0.5 and not only_deletion:
                lines.append(FILLER[ext] % (700000 + len(lines)))      # code appended after the block that used to end the file
            # OUTSIDE edit: change a filler line that adjoins no tag (the middle one of a 3-line pad)
            if r.random() < 0.4 and not only_deletion:
                cand = [i for i in range(1, len(lines) - 1)
                        if lines[i].startswith(FILLER[ext].split("%")[0]) and lines[i - 1].startswith(FILLER[ext].split("%")[0])
                        and lines[i + 1].startswith(FILLER[ext].split("%")[0])]
                if cand:
                    i = r.choice(cand)
                    lines[i] = FILLER[ext] % (900000 + i)
                    outside_edit[path] = i + 1
            stateB[path] = (lines, info)
        run.write_files(root, {p: "\n".join(l) + ("" if (only_deletion and p == no_eol) else "\n") for p, (l, _i) in stateB.items()})
        if only_deletion:
            os.unlink(os.path.join(root, "zz_gone.py"))
        ctxw = r.choice([0, 0, 1, 3, 3, 10])
        diff = run.git(root, "diff", "-U%d" % ctxw)
        if not diff.strip():
            return None
        globs = []
        if r.random() < 0.4 or only_deletion:
            p0 = r.choice([f[0] for f in files])
            globs = [r.choice([p0, "*." + p0.rsplit(".", 1)[1], "**/" + p0.rsplit("/", 1)[-1]])]
        env_l = {}
        lst = run.run(ctx.bin("rel"), ["list"] + globs, root, stdin=diff, env=env_l, cpu_limit=30)
        # now and then the producer of the diff is slow: silent before its first byte or in the middle, pipe open all the while
        pace = None
        x = r.random()
        if x < 0.04:
            pace = [(r.choice([0, len(diff) // 2]), 2.6)]
        elif x < 0.05:
            pace = [(r.choice([0, len(diff) // 2]), 6.5)]
        res = run.run(ctx.bin("rel"), globs, root, stdin=diff, env=env_l, cpu_limit=30, stdin_pauses=pace)
        scan = run.run(ctx.bin("rel"), [], root, stdin=None, env=dict(TERM), cpu_limit=30)
    finally:
        run.rm(root)
    return judge(r, files, stateA, stateB, classes, diff, ctxw, globs, lst, res, scan, desc)


def glob_match(globs, path):
    from .c15 import match_any
    return match_any(globs, path)


def judge(r, files, stateA, stateB, classes, diff, ctxw, globs, lst, res, scan, desc):
    key = h([diff.decode("utf-8", "replace"), globs])
    fds = {fd.new_path.decode(): fd for fd in udiff.parse(diff) if fd.new_path}
    # ---- cross-check construction classes with the diff --------------------------------------------
    verdict = {}
    for path, ext, op, blocks in files:
        infoA, infoB = stateA[path][1], stateB[path][1]
        groups = fds[path].groups if path in fds else []
        for b in blocks:
            ia, ib = infoA[b.name], infoB[b.name]
            cls = classes[(path, b.name)]
            inA = set(range(ia["s2"] + 1, ia["e1"]))
            inB = set(range(ib["s2"] + 1, ib["e1"]))
            tagsA = set(range(ia["s1"], ia["s2"] + 1))
            tagsB = set(range(ib["s1"], ib["s2"] + 1))
            endA = set(range(ia["e1"], ia["e2"] + 1))
            endB = set(range(ib["e1"], ib["e2"] + 1))
            d_inside = d_start = d_end = d_adj = d_mixed = d_mixed_end = False
            for g in groups:
                R, A = set(g.removed), set(g.added)
                if ((A & inB) or (R & inA)) and ((A & endB) or (R & endA)):
                    rem, add = sorted(g.removed), sorted(g.added)
                    if not (len(rem) == len(add) and all((x in endA) == (y in endB) for x, y in zip(rem, add))):
                        d_mixed_end = True      # content lines and the end-tag line in one group whose sides do not pair up line by line
                if ((A & inB) or (R & inA)) and ((A & tagsB) or (R & tagsA)):
                    # one change group covers a tag line *and* content lines: which removed line was the tag cannot be told
                    # from the diff, so the outcome is not decided by the statement
                    d_mixed = True
                if (A & inB) or (R & inA):
                    d_inside = True
                if (A & tagsB) or (R & tagsA):
                    d_start = True
                if (A & endB) or (R & endA):
                    d_end = True
                if (ib["s1"] - 1) in A or (ib["e2"] + 1) in A or (ia["s1"] - 1) in R or (ia["e2"] + 1) in R:
                    d_adj = True
            shared = b.layout.startswith("shared")
            if shared:
                # character-level classes only make sense for a line that git reports as replaced 1:1
                one_to_one = any(len(g.removed) == 1 and len(g.added) == 1 and g.added[0] == ib["s1"] and g.removed[0] == ia["s1"] for g in groups)
                ok = (cls == NONE and not d_start) or (cls != NONE and d_start and one_to_one)
                v = cls if ok and not d_adj else "dc"
            elif cls == INSIDE:
                # the end-tag line may have been reworded by the same change (words after the tag, inside its comment): still INSIDE,
                # unless git folded that line and content lines into one group that does not pair up
                end_ok = (not d_end) or (getattr(b, "end_suffix", "") and not d_mixed_end and not d_adj)
                v = INSIDE if (d_inside and not d_start and end_ok) else "dc"
            elif cls == BOTH:
                v = BOTH if (d_inside and d_start and not d_end and not d_mixed) else "dc"
            elif cls == TAGONLY:
                v = TAGONLY if (d_start and not d_inside and not d_end and not d_adj) else "dc"
            elif cls == ENDONLY:
                v = ENDONLY if (d_end and not d_inside and not d_start and not d_adj) else "dc"
            elif d_end and not (d_inside or d_start):
                v = ENDONLY       # e.g. only the line terminator of the end-tag line changed (file used to end without newline)
            else:
                v = NONE if not (d_inside or d_start or d_end or d_adj) else "dc"
            verdict[(path, b.name)] = v
    all_blocks = [(path, b) for path, ext, op, blocks in files for b in blocks]
    selected = {k for k, v in verdict.items() if v in (INSIDE, TAGONLY, BOTH)}
    notsel = {k for k, v in verdict.items() if v in (ENDONLY, NONE)}
    dcs = {k for k, v in verdict.items() if v == "dc"}
    in_glob = {(p, b.name) for p, b in all_blocks if globs and glob_match(globs, p)}
    clsset = {v for v in verdict.values() if v != "dc"}
    sets = {"classes": sorted(clsset), "git": ["-U%d" % ctxw], "globs": [str(len(globs))],
            "layouts": sorted({b.layout for _p, b in all_blocks}),
            "class_layout": sorted({"%s/%s" % (verdict[(p, b.name)], b.layout) for p, b in all_blocks if verdict[(p, b.name)] != "dc"})}
    wit = {"files_B": {p: "\n".join(l) for p, (l, _i) in stateB.items()}, "diff": diff.decode("utf-8", "replace")[:5000], "globs": globs,
           "classes": {"%s:%s" % k: v for k, v in verdict.items()}, "desc": desc}

    def bad(sig, summary):
        return Case(VIOLATED, key=key, nontrivial=True, sig=sig, summary=summary, evals=3, sets=sets,
                    witness=dict(wit, observed={"list": lst.brief(3000), "run": res.brief(3000), "scan": scan.brief(3000)}))

    for rr, what in ((lst, "list"), (res, "run"), (scan, "scan")):
        if rr.cls == "wall-timeout":
            return Case(INCONCLUSIVE, key=key, summary="wall timeout", evals=3)
        if bad_outcome(rr) or rr.cls == "usage":
            return bad("C02/%s-%s" % (what, rr.cls), "%s ended %s: %s" % (what, rr.cls, rr.err_text()[:300]))
    if lst.cls != "ok" or lst.listing() is None:
        return bad("C02/list-error", "`list` failed: %s" % lst.err_text()[:300])
    # ---- (1)+(2): which blocks are listed, and their content flag ------------------------------------
    listing = lst.listing()
    listed = {}
    for f, lst_blocks in listing.items():
        for x in lst_blocks:
            listed[(f, x.get("name"))] = bool(x.get("is_content_modified"))
    problems = []
    for k, v in verdict.items():
        if v == "dc":
            continue
        want_listed = (k in selected) or (k in in_glob)
        if want_listed != (k in listed):
            problems.append((k, v, "listed" if k in listed else "not-listed"))
        elif k in listed and listed[k] != (v in (INSIDE, BOTH)):
            problems.append((k, v, "flag-%s" % listed[k]))
    extra = [k for k in listed if k not in verdict]
    if extra:
        return bad("C02/unknown-block-listed", "listed blocks that were not written: %s" % extra[:3])
    if problems:
        k, v, what = problems[0]
        b = next(bb for p, bb in all_blocks if (p, bb.name) == k)
        # the recorded C01 finding can explain a missed/spurious INSIDE verdict when a shifted pure deletion exists
        path = k[0]
        groups = fds[path].groups if path in fds else []
        shifted_del = any(g.pure_deletion() and g.removed[0] != g.pos for g in groups)
        if shifted_del and not b.layout.startswith("shared"):
            ib = stateB[path][1][b.name]
            bi = difflab.BlockInfo(s1=ib["s1"], s2=ib["s2"], e1=ib["e1"], e2=ib["e2"])
            dm = c01.defect_model(bi, groups, 0)
            obs_mod = listed.get(k, False)
            if all(pv in (INSIDE, BOTH, NONE, ENDONLY) for _k, pv, _w in problems) and (dm is None or dm == obs_mod):
                return bad("C02/known/pure-deletion-located-at-old-line-number",
                           "block %s:%s (%s) %s; explained by the recorded diff_parser finding" % (k[0], k[1], v, what))
        mb = "/multibyte-before-tag" if b.layout == "shared-mb" else ""
        return bad("C02/selection/%s/%s/%s%s" % (v, what, b.layout, mb),
                   "block %s:%s has edit class %s (layout %s, how=%s) but is %s in diff mode; %d such problems" % (
                       k[0], k[1], v, b.layout, getattr(b, "how", None), what, len(problems)))
    # ---- (3)+(4): diagnostics of selected blocks == full scan ------------------------------------------
    def by_block(rr):
        if not rr.err.strip():
            return {}
        dl = diag_list(rr)
        if dl is None:
            return None
        out = {}
        for f, d in dl:
            m = MSG_RE.match(d.get("message", ""))
            out.setdefault((f, m.group(2) if m else None), []).append(json.dumps(d, sort_keys=True))
        return {k: sorted(v) for k, v in out.items()}

    dA, dS = by_block(res), by_block(scan)
    if dS is None:
        return Case(INCONCLUSIVE, key=key, summary="full scan failed: %s" % scan.err_text()[:200], evals=3)
    if dA is None:
        return bad("C02/run-error", "diff-mode validation failed although the full scan works: %s" % res.err_text()[:300])
    want_blocks = selected | in_glob
    pre_existing_unselected = False
    for k, v in verdict.items():
        if v == "dc":
            continue
        a, s = dA.get(k, []), dS.get(k, [])
        if k in want_blocks:
            if a != s:
                return bad("C02/diagnostics-differ/%s" % ("missed" if len(a) < len(s) else "extra" if len(a) > len(s) else "different"),
                           "block %s:%s (class %s): diff mode reports %s, full scan reports %s" % (k[0], k[1], v, a[:2], s[:2]))
        else:
            if s:
                pre_existing_unselected = True
            if a:
                return bad("C02/untouched-block-reported/%s" % v,
                           "block %s:%s (class %s) is not touched by the diff but diff mode reports %s" % (k[0], k[1], v, a[:2]))
    want_rc = 1 if any(json.loads(x).get("severity") == 1 for k, v in dA.items() for x in v) else 0
    if res.rc != want_rc:
        return bad("C02/exit-%d" % res.rc, "exit %d but diagnostics imply %d" % (res.rc, want_rc))
    nontrivial = len(clsset) >= 2 and pre_existing_unselected
    return Case(HELD, key=key, nontrivial=nontrivial, evals=3, sets=sets,
                counters={"blocks_judged": len(verdict) - len(dcs), "dont_care_blocks": len(dcs), "selected_blocks": len(selected),
                          "diagnostics_compared": sum(len(dS.get(k, [])) for k in want_blocks)},
                sample={"diff": diff.decode("utf-8", "replace")[:500], "classes": {"%s:%s" % k: v for k, v in list(verdict.items())[:8]},
                        "globs": globs, "exit": res.rc} if nontrivial else None)


def run_job(job, ctx):
    if job.get("k") == "witness":
        return _witness(ctx)
    out = []
    for j in range(job["n"]):
        r = rng("c02", job["seed"], job["i"], j)
        c = one_case(ctx, r, dict(job, j=j))
        if c is not None:
            out.append(c)
    return out


def _witness(ctx):
    """Deterministic reproduction of the C01 finding as seen through C02: a content line deleted after three
    inserted lines leaves its block unselected."""
    root = run.make_repo({"w.py": "p = 1\np = 2\np = 3\n# <block name=\"k\" keep-sorted data-rev=\"1\">\na\nb\nc\n# </block>\np = 4\np = 5\n"},
                         real_git=True, commit=True)
    try:
        run.write_files(root, {"w.py": "n = 1\nn = 2\nn = 3\np = 1\np = 2\np = 3\n# <block name=\"k\" keep-sorted data-rev=\"1\">\na\nb\n# </block>\np = 4\np = 5\n"})
        diff = run.git(root, "diff", "-U0")
        lst = run.run(ctx.bin("rel"), ["list"], root, stdin=diff, env={})
    finally:
        run.rm(root)
    l = lst.listing() or {}
    key = h(["c02-witness"])
    if lst.cls == "ok" and not l.get("w.py"):
        return [Case(VIOLATED, key=key, nontrivial=True, sig="C02/known/pure-deletion-located-at-old-line-number",
                     summary="deleting content line `c` after three inserted lines leaves block k unselected",
                     witness={"diff": diff.decode(), "observed": lst.brief()})]
    return [Case(HELD, key=key, nontrivial=True, counters={"witness_runs": 1})]


LEVEL_TEXT = ("Sampling over repositories, rules and edit scripts in which every block's edit class is known by construction and "
              "cross-checked against an independent diff interpreter; selection and content flags are compared with the "
              "class, and the diagnostics of selected blocks with a full scan of the same tree (differential oracle), with and "
              "without extra globs. Real git produces the diffs.")
LEVEL_NOTE = "Trusted: construction classes + bwverif.udiff cross-check; the full scan as reference for per-block diagnostics (itself covered by C06-C11)."
TECHNIQUE = "runtime monitoring: construction-truth edit classes + differential oracle (diff-mode vs full-scan diagnostics) over git-produced diffs"
