"""C18 - check-lua: one call per block, faithful arguments, errors fail the run.

The call boundary is observed from inside Lua: the probe script serialises what it was given
(length-prefixed) into its return value, counts calls in its state and, in safe mode, appends a
line per call to a log file, so nil-returning blocks are counted too.
"""
import os
import re

from .. import models, run
from ..fb import render_attrs
from .common import (Case, HELD, VIOLATED, INCONCLUSIVE, TERM, bad_outcome, diag_list, files_text, h, lua_script, rng, tsan_collect, tsan_env)

ID = "C18"
LEVEL = "exploration"
BUILDS = {"quick": ["rel"], "thorough": ["rel", "tsan", "asan"]}
OPTIONAL_BUILDS = ["tsan", "asan"]
BUDGET_S = {"quick": 600, "thorough": 2400}
RULE = ("1-40 scripted blocks over 1-5 files (Python, Go, TOML hosts with bracket/quote-free text; Markdown HTML-comment host with everything) with contents over Unicode, quotes, blank and "
        "whitespace-only edges, extra attributes of every syntax, optional check-lua-pattern (value group, plain, "
        "multi-line, non-matching) and per-block busy loops (0-2M iterations) so that completion order varies; 0-3 "
        "blocks use a failing script (syntax error, load-time error, runtime error, nil index, missing validate, "
        "number/boolean/false/table/function result), made the fastest or the slowest task; TOKIO_WORKER_THREADS in "
        "{1,2,4,16} x CPU affinity {1 core, 4 cores, all}; default and safe mode (safe adds a per-call log); in a quarter of the runs one check-ai block "
        "(fake endpoint, answering at once or late) reports on one of the same files. Expected: "
        "decoded arguments == construction truth, calls == 1, one diagnostic per string-returning block and none per "
        "nil-returning block, one log line per block; any failing script => non-zero exit without crash. A case is one "
        "execution; non-trivial = >=3 blocks; distinct = hash of (files, runtime configuration).")
ASSUMPTIONS = ["content argument = Rust str::trim of the exact content (Unicode White_Space), or the first match of check-lua-pattern",
               "code hosts get content without quotes/brackets (an unterminated string may swallow the end-tag comment); Markdown carries the full character set"]

HOSTS = [("py", "#"), ("go", "//"), ("toml", "#"), ("md", "<!--"), ("md", "<!--")]
UNSAFE_IN_CODE = set("'\"(){}[]<>\\`\u00a0\u2003\u3000\u2028\u0085\x0b")
FAILS = ["syntax", "runtime", "load", "lateload", "missing", "number", "boolean", "table", "false", "nilindex", "func", "cstack", "badutf8"]
PIECES = ["alpha", "beta gamma", "  lead", "trail  ", "é ü", "日本語", "\U0001F600", "it's", 'say "hi"', "a=b", "<tag>", "x > y", "1 + 2",
          "id: 42", "id: seven", "\u00a0nbsp\u00a0", "\u2003emsp", "\u3000ideographic", "trail\u3000", "\u2028ls", "nel\u0085", "\x0bvt", "tab\there", "100%", "{json: [1,2]}", "(paren)", "semi;colon", "start", "end",
          "zzz", "-- dash", "$var", "@at", "~tilde", "^caret", "|pipe|", "comma, separated", "q?", "e!"]
PATTERNS = [None, None, None, r"(?P<value>\d+)", r"id: (\w+)", r"(?s)start.*end", r"^zzz$", r"(?m)^\s*(?P<value>\S+)$", r"(?P<value>[^\x00-\x7f]+)",
            r"(?s).*", r"(?P<value>\s+\S+\s+)", r"\S+[ \t]+"]


def plan(tier, seed):
    n = 300 if tier == "quick" else 4000
    jobs = [{"i": i, "seed": seed, "n": 6, "flavour": "rel"} for i in range(n)]
    if tier == "thorough":
        jobs += [{"i": i, "seed": seed, "n": 3, "flavour": "tsan"} for i in range(40)]
        jobs += [{"i": i, "seed": seed, "n": 3, "flavour": "asan"} for i in range(40)]
    return jobs


def decode(msg):
    """Inverse of args.lua's serialisation; returns dict or None."""
    if not msg.startswith("ARGS"):
        return None
    data = msg[4:].encode("utf-8")
    pos = 0
    fields = []
    try:
        while pos < len(data):
            j = data.index(b":", pos)
            n = int(data[pos:j])
            fields.append(data[j + 1:j + 1 + n].decode("utf-8"))
            pos = j + 1 + n
        file_, ltype, line, calls, nk = fields[0], fields[1], fields[2], int(fields[3]), int(fields[4])
        attrs = {}
        for k in range(nk):
            attrs[fields[5 + 2 * k]] = fields[6 + 2 * k]
        ctype, content = fields[5 + 2 * nk], fields[6 + 2 * nk]
        if len(fields) != 7 + 2 * nk:
            return None
        return {"file": file_, "line_type": ltype, "line": line, "calls": calls, "attrs": attrs, "content_type": ctype, "content": content}
    except Exception:
        return None


def expected_content(content, pattern):
    if pattern is None:
        return models.rust_trim(content)[0]
    m = re.search(pattern, content)
    if not m:
        return ""
    if "value" in m.re.groupindex and m.group("value") is not None:
        return m.group("value")
    return m.group(0)


class LB:
    pass


def gen_case(r, script, fail_scripts, logdir, ai=False, twin=None):
    nfiles = r.randint(1, 5)
    nblocks = r.choice([1, 2, 3, 5, 8, 12, 20, 40])
    files, blocks = {}, []
    per = [[] for _ in range(nfiles)]
    for bi in range(nblocks):
        per[r.randrange(nfiles)].append(bi)
    nfail = r.choice([0, 0, 0, 1, 1, 2, 3])
    failing = set(r.sample(range(nblocks), min(nfail, nblocks)))
    fail_fast = r.random() < 0.5
    ai_file = r.choice([fi for fi in range(nfiles) if per[fi]]) if ai else None
    for fi in range(nfiles):
        if not per[fi]:
            continue
        ext, op = r.choice(HOSTS)
        path = "%sf%d.%s" % (r.choice(["", "src/", "a/b/"]), fi, ext)
        out = []
        line = 1
        if ext == "go":
            out.append("package main\n")
            line += 1
        for bi in per[fi]:
            b = LB()
            b.name = "L%d" % bi
            b.path = path
            b.failing = bi in failing
            b.verdict = r.choice(["string", "string", "nil"])
            spin = r.choice([0, 0, 1000, 50000, 400000, 2000000])
            if b.failing:
                spin = 0 if fail_fast else 3000000
            b.pattern = r.choice(PATTERNS)
            extra = []
            for _ in range(r.randint(0, 3)):
                k = r.choice(["data-x", "owner", "note_1", "ключ", "flag", "x"])
                if r.random() < 0.08:
                    extra.append(("dive", r.choice(["60", "120", "150"])))      # the script recurses that deep through C callbacks first
                v = r.choice([None, "", "plain", "two words", "é", "a>b", "it's", 'q"q', "=", "1"])
                extra.append((k, v))
            if b.failing:
                b.kind = r.choice(FAILS)
                spath = fail_scripts[b.kind]
            else:
                b.kind = None
                spath = script
                if twin and r.random() < 0.35:
                    spath = twin           # the always-approving twin: `verdict` stays what it was, the expectation becomes nil
            attrs = [("name", b.name), ("check-lua", spath), ("spin", str(spin)), ("verdict", b.verdict)]
            if spath == twin:
                b.verdict = "nil"
            if logdir:
                attrs.append(("log", os.path.join(logdir, "calls.log")))
            if b.pattern is not None:
                attrs.append(("check-lua-pattern", b.pattern))
            b.severity = r.choice([None, None, None, "warning", "info", "hint"])
            if b.severity:
                attrs.append(("severity", b.severity))
            attrs += extra
            r.shuffle(attrs)
            b.attr_map = {}
            for k, v in attrs:
                b.attr_map[k] = "" if v is None else v
            nl = r.choice([0, 1, 1, 2, 3, 6]) if r.random() > 0.03 else 3000      # now and then ~60 KB of content
            # code hosts get pieces without quotes/brackets (an unterminated string or bracket may swallow the
            # end-tag comment, which is the host language's business); Markdown gets everything
            pool = PIECES if ext == "md" else [p for p in PIECES if not (set(p) & UNSAFE_IN_CODE)]
            lines = [" ".join(r.choice(pool) for _ in range(r.randint(1, 3))) for _ in range(nl)]
            uni = ["\u3000", "\u00a0 ", " \u2003", "\u2028", "\u0085"] if ext == "md" else []      # Unicode White_Space at the content's edges
            if r.random() < 0.3:
                lines.insert(0, r.choice(["", "   ", " "] + uni))
            if r.random() < 0.3:
                lines.append(r.choice(["", "   ", " \t"] + uni))
            b.tag_line = line
            if ext == "md" and r.random() < 0.15 and not b.failing:
                # a sibling block on the same source line: `<!-- <block A> --> a <!-- </block> --> <!-- <block B> --> b <!-- </block> -->`
                b2 = LB()
                b2.name, b2.path, b2.failing, b2.verdict, b2.kind, b2.pattern = b.name + "s", path, False, "string", None, None
                attrs2 = [("name", b2.name), ("check-lua", script), ("spin", "0"), ("verdict", "string")]
                if logdir:
                    attrs2.append(("log", os.path.join(logdir, "calls.log")))
                b2.attr_map = {k: v for k, v in attrs2}
                b.tag_line = b2.tag_line = line
                b.content, b2.content = " one ", " two "
                b.pattern = None
                attrs = [(k, v) for k, v in attrs if k != "check-lua-pattern"]
                b.attr_map = {k: ("" if v is None else v) for k, v in attrs}
                b.expected_content, b2.expected_content = "one", "two"
                out.append("<!-- <block %s> --> one <!-- </block> --> <!-- <block %s> --> two <!-- </block> -->\n\n" % (render_attrs(attrs), render_attrs(attrs2)))
                line += 2
                blocks.append(b)
                blocks.append(b2)
                continue
            if ext == "md":
                if r.random() < 0.35:
                    # start tag spread over several lines: ctx.line is the line of its '<'
                    out.append("<!-- <block\n")
                    for k, v in attrs:
                        out.append("  %s\n" % render_attrs([(k, v)]))
                    out.append("> -->\n")
                    extra_tag_lines = len(attrs) + 1
                else:
                    out.append("<!-- <block %s> -->\n" % render_attrs(attrs))
                    extra_tag_lines = 0
                for l in lines:
                    out.append(l + "\n")
                out.append("<!-- </block> -->\n\n")
                line += len(lines) + 3 + extra_tag_lines
            else:
                out.append("%s <block %s>\n" % (op, render_attrs(attrs)))
                for l in lines:
                    out.append(l + "\n")
                out.append("%s </block>\n" % op)
                line += len(lines) + 2
            b.content = "\n" + "".join(l + "\n" for l in lines)
            b.expected_content = expected_content(b.content, b.pattern)
            blocks.append(b)
        if ai and fi == ai_file:
            # the other asynchronous validator reports on the same file (info severity: the exit status stays check-lua's)
            tag = '<block name="AI%d" check-ai="must be approved" severity="info">' % fi
            if ext == "md":
                out.append("<!-- %s -->\nreviewed text\n<!-- </block> -->\n\n" % tag)
            else:
                out.append("%s %s\nreviewed text\n%s </block>\n" % (op, tag, op))
        files[path] = "".join(out)
    return files, blocks


def run_job(job, ctx):
    fl = job["flavour"]
    if fl not in ctx.bins:
        return [Case(INCONCLUSIVE, key=h(job), summary="build %s unavailable" % fl, evals=0)]
    script = lua_script("args.lua")
    # a second script with the same *file name* in another directory: it always approves (returns nil), whatever `verdict` says
    twin_dir = os.path.join(os.path.dirname(script), "twin")
    twin = os.path.join(twin_dir, os.path.basename(script))
    if not os.path.exists(twin):
        os.makedirs(twin_dir, exist_ok=True)
        src = open(script).read().replace('if ctx.attrs.verdict == "nil" then return nil end', "if true then return nil end")
        assert src != open(script).read()
        with open(twin + ".tmp%d" % os.getpid(), "w") as f:
            f.write(src)
        os.replace(twin + ".tmp%d" % os.getpid(), twin)
    fail_scripts = {k: lua_script("fail/%s.lua" % k) for k in FAILS}
    out = []
    for j in range(job["n"]):
        r = rng("c18", job["seed"], job["i"], j, fl)
        safe = r.random() < 0.4
        logdir = run.fresh_dir("lualog") if safe else None
        with_ai = r.random() < 0.25
        files, blocks = gen_case(r, script, fail_scripts, logdir, ai=with_ai, twin=twin if r.random() < 0.5 else None)
        workers = r.choice([None, 1, 2, 4, 16])
        ncpu = os.cpu_count() or 1
        aff = r.choice([None, None, {r.randrange(ncpu)}, set(r.sample(range(ncpu), min(4, ncpu)))])
        env = dict(TERM)
        if workers:
            env["TOKIO_WORKER_THREADS"] = str(workers)
        if safe:
            env["BLOCKWATCH_LUA_MODE"] = "safe"
        if with_ai:
            from .. import fake_ai
            aisrv = fake_ai.instance()
            late = r.random() < 0.7
            aisrv.begin(lambda req, late=late: ("delay", 0.25, ("reply", "not approved")) if late else ("reply", "not approved"))
            env.update(aisrv.env())
        tsan_dir = None
        if fl == "tsan":
            tsan_dir = run.fresh_dir("tsan")
            tsan_env(env, tsan_dir)
        if fl == "asan":
            env["ASAN_OPTIONS"] = "detect_leaks=0"
        root = run.make_repo(files)
        try:
            res = run.run(ctx.bins[fl], [], root, stdin=None, env=env, cpu_limit=120, affinity=aff)
        finally:
            run.rm(root)
        log_lines = None
        if logdir:
            lp = os.path.join(logdir, "calls.log")
            log_lines = open(lp).read().split("\n")[:-1] if os.path.exists(lp) else []
            run.rm(logdir)
        tsan_sigs, _ign = tsan_collect(tsan_dir) if tsan_dir else ([], 0)
        if tsan_sigs:
            out.append(Case(VIOLATED, key=h([files, "tsan"]), nontrivial=True, sig="C18/tsan/" + tsan_sigs[0],
                            summary="ThreadSanitizer report(s): %s" % tsan_sigs[:3], witness={"files": files_text(files, 3000), "reports": tsan_sigs}))
            continue
        out.append(judge(res, files, blocks, log_lines, dict(job, j=j, ai=with_ai), workers, aff, safe, fl))
    return out


def judge(res, files, blocks, log_lines, desc, workers, aff, safe, fl):
    key = h([files, workers, sorted(aff) if aff else None, safe, fl])
    nontrivial = len(blocks) >= 3
    failing = [b for b in blocks if b.failing]
    cfg = "workers=%s/affinity=%s/%s" % (workers or "default", len(aff) if aff else "all", "safe" if safe else "sandboxed")
    sets = {"config": [cfg], "failure_modes": sorted({b.kind for b in failing}), "flavour": [fl]}
    wit = {"files": files_text(files, 3000), "config": cfg, "failing": [(b.name, b.kind) for b in failing], "desc": desc,
           "observed": res.brief(3000)}

    def bad(sig, summary):
        return Case(VIOLATED, key=key, nontrivial=nontrivial, sig=sig, summary=summary + " [%s, %d blocks]" % (cfg, len(blocks)),
                    witness=wit, sets=sets)

    if res.cls == "wall-timeout":
        return Case(INCONCLUSIVE, key=key, summary="wall timeout")
    if res.cls in ("tsan", "asan"):
        return bad("C18/%s-report" % res.cls, "%s report: %s" % (res.cls, res.err_text()[:600]))
    if bad_outcome(res):
        return bad("C18/run-%s" % res.cls, "run ended %s: %s" % (res.cls, res.err_text()[:300]))
    if failing:
        kinds = "+".join(sorted({b.kind for b in failing}))
        if res.rc == 0:
            return bad("C18/failing-script-passed/%s" % kinds, "exit 0 although %d script(s) fail (%s)" % (len(failing), kinds))
        dlf = diag_list(res) if res.err.strip() else None
        if dlf is not None:
            # exit 1 with an ordinary diagnostics report: the failure was turned into (or hidden behind) diagnostics
            names = [b.name for b in failing]
            quoted = [d for _f, d in dlf if any((":%s " % n) in d.get("message", "") for n in names)]
            only_badutf8 = all(b.kind == "badutf8" for b in failing)     # (a lossy diagnostic for an undecodable string is not silence)
            if (quoted or not any(b.verdict == "string" and not b.failing and not getattr(b, "severity", None) for b in blocks)) and not (only_badutf8 and quoted):
                return bad("C18/failing-script-reported-as-diagnostic/%s" % kinds,
                           "a failing script (%s) did not fail the run: exit %d comes from diagnostics only: %s" % (kinds, res.rc, str(quoted[:1])[:200]))
        return Case(HELD, key=key, nontrivial=nontrivial, sets=sets, counters={"runs_with_failing_script": 1, "blocks": len(blocks)},
                    sample={"config": cfg, "blocks": len(blocks), "failing": [(b.name, b.kind) for b in failing], "exit": res.rc,
                            "stderr": res.err_text()[:160]})
    strings = [b for b in blocks if b.verdict == "string"]
    want_rc = 1 if any(not getattr(b, "severity", None) for b in strings) else 0
    dl = diag_list(res) if res.err.strip() else []
    if dl is None:
        return bad("C18/stderr-not-json", "stderr is not the diagnostics object: %s" % res.err_text()[:300])
    got = {}
    order = {}
    if desc.get("ai"):
        nai = len([1 for _f, d in dl if d.get("code") == "check-ai"])
        if nai != 1:
            return bad("C18/companion-ai-diagnostics-%d" % nai, "the run's one check-ai block has %d diagnostics" % nai)
        dl = [(f, d) for f, d in dl if d.get("code") != "check-ai"]
        sets["config"] = [cfg + "/with-check-ai"]
    for f, d in dl:
        if d.get("code") != "check-lua":
            return bad("C18/foreign-diagnostic", "unexpected diagnostic %s" % str(d)[:200])
        dec = decode((d.get("data") or {}).get("lua_error", ""))
        if dec is None:
            return bad("C18/undecodable", "diagnostic does not carry the script's string: %s" % str(d)[:300])
        nm = dec["attrs"].get("name")
        got.setdefault(nm, []).append((f, dec, d))
        order.setdefault(f, []).append(nm)
    for b in blocks:
        g = got.pop(b.name, [])
        if b.verdict == "nil":
            if g:
                return bad("C18/diagnostic-for-nil", "block %s returned nil but has %d diagnostic(s)" % (b.name, len(g)))
            continue
        if len(g) != 1:
            return bad("C18/diagnostic-count-%d" % len(g), "block %s returned a string but has %d diagnostics" % (b.name, len(g)))
        f, dec, d = g[0]
        exp = {"file": b.path, "line_type": "integer", "line": str(b.tag_line), "calls": 1, "attrs": b.attr_map,
               "content_type": "string", "content": b.expected_content}
        for fld in ("file", "line", "line_type", "calls", "attrs", "content_type", "content"):
            if dec[fld] != exp[fld]:
                return bad("C18/argument-%s%s" % (fld, "/pattern" if (fld == "content" and b.pattern) else ""),
                           "block %s: validate() saw %s=%r, expected %r (pattern %r)" % (b.name, fld, dec[fld], exp[fld], b.pattern))
        if f != b.path:
            return bad("C18/diagnostic-file", "diagnostic of %s filed under %r" % (b.name, f))
    if got:
        return bad("C18/diagnostic-unknown-block", "diagnostics for unknown blocks %s" % sorted(got))
    if res.rc != want_rc:
        return bad("C18/exit-%d" % res.rc, "exit %d, expected %d" % (res.rc, want_rc))
    if log_lines is not None:
        want_log = sorted(b.name for b in blocks)
        if sorted(log_lines) != want_log:
            from collections import Counter
            c = Counter(log_lines)
            dup = [n for n, k in c.items() if k > 1]
            miss = [n for n in want_log if n not in c]
            return bad("C18/call-count/%s" % ("duplicated" if dup else "missing"),
                       "call log has %d lines for %d blocks (called twice: %s, never: %s)" % (len(log_lines), len(blocks), dup[:3], miss[:3]))
    # completion order observed = order of diagnostics inside a file's list
    orders = []
    for f, names in order.items():
        src = [b.name for b in blocks if b.path == f and b.verdict == "string"]
        if len(names) >= 3:
            orders.append("in-source-order" if names == src else "permuted:" + h([names, src])[:6])
    sets["completion_orders"] = orders
    return Case(HELD, key=key, nontrivial=nontrivial, sets=sets,
                counters={"blocks": len(blocks), "arguments_decoded": len(strings), "log_lines_checked": len(log_lines or [])},
                sample={"config": cfg, "blocks": len(blocks), "a_block": {"name": strings[0].name, "pattern": strings[0].pattern,
                                                                            "content_seen": strings[0].expected_content[:80]} if strings else None})


def finalize(agg, tier, coverage):
    orders = agg["sets"].get("completion_orders", set())
    if len([o for o in orders if o.startswith("permuted")]) < 2:
        return ["fewer than 2 permuted completion orders observed (schedule did not vary)"]
    return []


LEVEL_TEXT = ("Sampling over block sets, contents, patterns, failure subsets and runtime configurations (worker threads x CPU "
              "affinity x Lua mode), with the call boundary observed from inside the script (arguments echoed length-prefixed, "
              "per-state call counter, per-call log in safe mode). Evidence reports the distinct completion orders seen; a run "
              "that saw no permuted order is inconclusive. Thorough adds TSan and ASan slices (Lua C code instrumented).")
LEVEL_NOTE = "Trusted: args.lua's serialisation, Python re == Rust regex on the fixed patterns, Rust trim emulation."
TECHNIQUE = "runtime monitoring: in-script argument/call-count probes under varied worker threads, CPU affinity and busy-loop skew; fault injection of failing scripts"
