"""C05 - tag syntax: attributes round-trip, look-alikes are ignored.

Oracle: print -> parse round trip. The generator prints an attribute AST in random concrete
syntax and records where the '<' went; `blockwatch list` must return exactly that AST and position.
"""
from .. import fb as fbm, run
from ..langs import Form, C_BLOCK, C_BLOCK_STAR, C_LINE, HASH, XML_C
from .common import (Case, HELD, VIOLATED, INCONCLUSIVE, TERM, bad_outcome, files_text, h, rng)

ID = "C05"
LEVEL = "exploration"
BUILDS = {"quick": ["rel"], "thorough": ["rel", "asan"]}
OPTIONAL_BUILDS = ["asan"]
BUDGET_S = {"quick": 600, "thorough": 2400}
RULE = ("Start tags with 0-6 attributes printed in random concrete syntax: names over ASCII/Unicode letters, digits, '-', '_'; "
        "bare, unquoted, single- and double-quoted values over printable characters minus the enclosing quote (so >, <, =, /, "
        "the other quote and spaces occur) minus the host comment's forbidden substrings; spaces, tabs and (in multi-line "
        "comments, plain or star-decorated) newlines between attributes and around '='; duplicates (last wins); prose and "
        "foreign tags (<b>, <a href=x>, <br/>) directly before and after; end tags with inner whitespace. Hosts: //, #, "
        "/* */, /* * */, <!-- -->, Markdown link comments. Look-alike cases put members of a look-alike family (<blockquote>, "
        "<block/>, <Block>, < block>, <block-x>, <blocks>, <block name=>, unclosed quote at the end of a comment, "
        "</block x>, ...) next to healthy blocks, which must be listed unchanged with exit 0. A case is one file; "
        "non-trivial = a tag with >=2 attributes incl. a quoted value holding a metacharacter, or a multi-line layout, or "
        "a look-alike; distinct = hash of file bytes.")
ASSUMPTIONS = ["attribute values contain no newline (outside the quantifier)",
               "separators are ASCII whitespace (space, tab, CR, LF) as in HTML; NBSP as a separator is not generated"]

NAMES = ["name", "keep-sorted", "data-x", "a", "A1", "x_y", "ключ", "名前", "é", "n0", "0n", "-lead", "_u", "keep-unique", "Z-9_z"]
UNQUOTED = ["v", "asc", "a-b_c", "123", "значение", "値", "é1", "-", "_"]
NAME_CHARS = list("azAZ09-_") + list("\u00e9\u00df\u0130\u01c5\u00aa\u044f\u03a9\u05d0\u0639\u0915\u540d\u3042\uac00\U00010400") + \
             list("\u00b2\u00b9\u00bd\u00be\u0663\u06f7\u096f\uff13\u2163\u2177\u2460\u2080\u3007\u4e09\U0001d7d8")
assert all(__import__("unicodedata").category(c)[0] in "LN" or c in "-_" for c in NAME_CHARS)
QCHARS = ["word", " ", ">", "<", "=", "/", "a>b", "<b>", "</block>", "<block x>", "k=v", "é", "日本", "\U0001F600", "(", ")", "[x]", "{y}", "*", "#", "\\",
          "&quot;", "%", ";", ":", ",", ".", "!", "?", "|", "~", "`", "$", "^", "+", "\t", "--", "a--b", "//", "#", "/*"]
FOREIGN = ["<b>", "</b>", "<a href=x>", "<br/>", "<i>", "<p class=\"c\">", "</p>", "<x-block>", "<b lock>"]
LOOKALIKES = ["<blockquote>", "</blockquote>", "<block/>", "<Block>", "<BLOCK name=\"x\">", "< block>", "< block name=\"x\">", "<block-x>", "<blocks>",
              "<block name=>", "<block =x>", "<block name=\"x\"y>", "<blockname=\"x\">", "</Block>", "</block x>", "</blocks>",
              "<\\block>", "<block name=\"a\" / >", "<block,>", "<block name=\"x\"/>", "<block name=x/>", "<block keep-sorted/>", "<block name='x' />", "</ blockquote >", "<block name=x y=>z>"[:0] or "<block.>",
              "<block name=\"x\">", "<bloc k>", "<block name=\"x\" <", "<_block>", "<block a=\"1\"b=\"2\">", "<block a='1'b>"]
UNCLOSED = ["<block name=\"never closed", "<block name='never closed", "<block a=\"1\" b=\"2", "<block name=\"x\" c='"]
END_TAGS = ["</block>", "</block>", "</ block >", "< / block>", "</block  >", "<  /  block  >", "</\tblock>",
            # line breaks at each of the three gaps (block-comment forms only)
            "</\nblock>", "</block\n>", "<\n/block>", "</\n   block >", "<\n/\nblock\n>", "</\r\nblock>"]

HOSTS = [
    ("f.rs", C_LINE), ("f.py", HASH), ("f.js", C_BLOCK), ("f.java", C_BLOCK_STAR), ("f.html", XML_C), ("f.c", C_BLOCK),
    ("f.md", Form("md-paren", "line", "[//]: # (", ")", forbid=("(", ")"), col0=True, blank_around=True, family="md")),
    ("f.md", Form("md-dquote", "line", '[//]: # "', '"', forbid=('"',), col0=True, blank_around=True, family="md")),
    ("f.xml", XML_C), ("f.go", C_BLOCK), ("f.sql", Form("dash", "line", "--")), ("f.toml", HASH),
    # block comments nest in Rust and Kotlin: a closed inner comment first, then the tag on star-decorated lines
    ("f.rs", Form("nested-block-star", "block", "/* /* inner */", "*/", cont=" * ", forbid=("*/", "/*"))),
    ("f.kt", Form("nested-block-star", "block", "/* /* inner */", "*/", cont=" * ", forbid=("*/", "/*"))),
]


def plan(tier, seed):
    n = 60 if tier == "quick" else 1500
    jobs = []
    for hi in range(len(HOSTS)):
        for i in range(n):
            jobs.append({"host": hi, "i": i, "seed": seed, "n": 8, "flavour": "rel"})
    if tier == "thorough":
        for hi in range(len(HOSTS)):
            for i in range(20):
                jobs.append({"host": hi, "i": i, "seed": seed, "n": 8, "flavour": "asan"})
    return jobs


def gen_value(r, form, quote):
    if form.id == "md-paren" and r.random() < 0.25:
        return r.choice(["\\w+\\(\\)", "f\\(x\\)", "a\\)b"])     # backslash-escaped parentheses are legal inside a (...) title
    for _ in range(20):
        v = "".join(r.choice(QCHARS) for _ in range(r.randint(0, 4)))
        if r.random() < 0.03:
            v = v + "long-" * r.choice([60, 1000, 14000])      # values of 300 / 5,000 / 70,000 bytes
        if quote in v:
            continue
        if any(bad in v for bad in form.forbid):
            continue
        if form.kind == "block" and form.close in v:
            continue
        if form.family == "html" and (v.endswith("-") or "--" in v):
            continue
        if form.family == "md" and "\\" in v:
            continue
        return v
    return "plain"


def gen_tag(r, form, multiline_ok):
    """Returns (source text, expected attribute dict, features)."""
    n = r.choice([0, 1, 1, 2, 2, 3, 4, 6, 6, 12, 40])
    feats = set()

    def ws(min1=True):
        pool = [" ", " ", "  ", "\t"]
        if multiline_ok and r.random() < 0.3:
            feats.add("newline")
            return r.choice(["\n", " \n ", "\n\t"])
        s = r.choice(pool)
        return s if min1 else r.choice(["", "", s])

    src = "<block"
    exp = {}
    names = [r.choice(NAMES) for _ in range(n)]
    for i in range(n):
        if r.random() < 0.3:
            # a name composed from the whole class the grammar admits: letters and numerals of any script (decimal digits, superscripts,
            # fractions, Roman and circled numerals), `-` and `_`
            names[i] = "".join(r.choice(NAME_CHARS) for _ in range(r.choice([1, 2, 3, 6])))
            while "--" in names[i]:          # `--` may not occur inside an XML comment (and `-->` would end an HTML one)
                names[i] = names[i].replace("--", "-")
            feats.add("composed-name")
    if n >= 2 and r.random() < 0.25:
        names[-1] = names[0]
        feats.add("duplicate")
    for nm in names:
        src += ws()
        src += nm
        kind = r.choice(["bare", "unquoted", "dq", "dq", "sq", "sq"])
        if form.family == "md" and '"' in form.forbid and kind == "dq":
            kind = "sq"
        if kind == "bare":
            exp[nm] = ""
            feats.add("bare")
            continue
        eq = ws(False) + "=" + ws(False)
        if eq != "=":
            feats.add("space-around-eq")
        src += eq
        if kind == "unquoted":
            v = r.choice(UNQUOTED)
            src += v
        else:
            q = '"' if kind == "dq" else "'"
            v = gen_value(r, form, q)
            src += q + v + q
            if any(c in v for c in "<>=/'\""):
                feats.add("quoted-metachar")
        exp[nm] = v
    src += ws(False) + ">"
    if len(exp) >= 2:
        feats.add("multi-attr")
    return src, exp, feats


def build(r, fname, form):
    b = fbm.FB(r.choice(["\n", "\n", "\r\n"]))
    if fname.endswith(".xml"):
        b.line_text("<root>")
    if fname.endswith(".go"):
        b.line_text("package main")
    expected = []
    feats = set()
    lookalikes = 0
    nblocks = r.randint(1, 5)
    multiline_ok = form.kind == "block" and not form.col0

    def open_c():
        if form.blank_around:
            if not b.at_line_start():
                b.nl()
            t = b.text()
            if t and not t.endswith((b.eol * 2).encode()):
                b.nl()
        b.open_comment(form)
        b.raw(" " if form.family != "md" else "")

    def close_c():
        b.raw(" " if form.kind == "block" and form.family != "md" else "")
        b.close_comment()
        b.nl()
        if form.blank_around:
            b.nl()

    def noise():
        t = r.choice(["", "", "note", "see", "é", "x y"])
        if r.random() < 0.5:
            f = r.choice(FOREIGN)
            if not any(bad in f for bad in form.forbid):
                t = (t + " " + f).strip()
        for bad in form.forbid:
            t = t.replace(bad, " ")
        return t

    def lookalike():
        nonlocal lookalikes
        cands = [l for l in LOOKALIKES if l and not any(bad in l for bad in form.forbid) and not (form.family == "md" and "\\" in l)]
        la = r.choice(cands)
        lookalikes += 1
        return la

    for bi in range(nblocks):
        if r.random() < 0.35:
            # a comment that only holds look-alikes (optionally ending in a never-closed quote)
            open_c()
            b.raw(noise() + " " + lookalike() + " " + noise())
            if r.random() < 0.4:
                u = r.choice([x for x in UNCLOSED if not any(bad in x for bad in form.forbid)] or [""])
                if u:
                    b.raw(" " + u)
                    lookalikes += 1
                    if form.family == "md" or form.kind == "block":
                        # the closing delimiter must not complete the quote
                        pass
            close_c()
        src, exp, fs = gen_tag(r, form, multiline_ok)
        # continuation lines of a block comment may be indented (spaces / tabs) in front of their ` * ` decoration
        clead = r.choice(["", "", "\t", "  ", "\t\t", " \t"]) if form.kind == "block" and not fname.endswith((".md", ".html", ".xml")) else ""
        if form.cont and "\n" in src:
            # decorated continuation lines: ` * ` precedes the rest of the tag on each new line
            src2 = src.replace("\n", b.eol + clead + form.cont)
        else:
            src2 = src.replace("\n", b.eol)       # line breaks inside a tag are the file's own (CRLF files: `<block\r\n  name=..`)
        feats |= fs
        open_c()
        if multiline_ok and r.random() < 0.4:
            # the tag sits on line k of a multi-line comment
            for _ in range(r.randint(1, 3)):
                b.raw(noise() or "words")
                b.comment_nl(clead)
            feats.add("newline")
        pre = noise()
        if pre:
            b.raw(pre + r.choice([" ", ""]) if not pre.endswith(">") else pre)
        if r.random() < 0.3:
            b.raw(lookalike() + " ")
        t = b.tag("start", src2, exp)
        post = noise()
        if post:
            b.raw((" " if r.random() < 0.7 else "") + post)
        close_c()
        expected.append((t.line, t.col, exp))
        b.line_text({"f.rs": "let x = 1;", "f.py": "x = 1", "f.js": "let x = 1;", "f.java": "int x = 1;", "f.html": "<p>t</p>",
                     "f.c": "int x = 1;", "f.md": "text", "f.xml": "<i>t</i>", "f.go": "var x = 1", "f.sql": "SELECT 1;", "f.toml": "x = 1", "f.kt": "val x = 1"}[fname])
        open_c()
        if r.random() < 0.3:
            b.raw(lookalike() + " ")
        et = r.choice(END_TAGS)
        if form.kind == "line" and "\n" in et:
            et = "</block>"
        if et != "</block>":
            feats.add("end-tag-whitespace")
        if "\n" in et:
            feats.add("end-tag-line-break")
        b.tag("end", et)
        glued = form.kind == "line" and form.family != "md" and r.random() < 0.25
        if glued:
            # `</block><block>` : a bare start tag glued to the previous tag, ending the comment (and closed again below)
            t2 = b.tag("start", "<block>", {})
            feats.add("glued-bare-tag")
            close_c()
            expected.append((t2.line, t2.col, {}))
            open_c()
            b.tag("end", "</block>")
            close_c()
            continue
        if r.random() < 0.3:
            b.raw(" " + noise())
        close_c()
    if fname.endswith(".xml"):
        b.line_text("</root>")
    if lookalikes:
        feats.add("lookalike")
    return b, expected, feats


def run_job(job, ctx):
    fl = job["flavour"]
    if fl not in ctx.bins:
        return [Case(INCONCLUSIVE, key=h(job), summary="build %s unavailable" % fl, evals=0)]
    fname, form = HOSTS[job["host"]]
    out = []
    for j in range(job["n"]):
        r = rng("c05", job["seed"], job["host"], job["i"], j)
        b, expected, feats = build(r, fname, form)
        data = b.text()
        env = dict(TERM)
        if fl == "asan":
            env["ASAN_OPTIONS"] = "detect_leaks=0"
        root = run.make_repo({fname: data})
        try:
            res = run.run(ctx.bins[fl], ["list"], root, stdin=None, env=env)
        finally:
            run.rm(root)
        key = h([fname, data.decode("utf-8", "replace")])
        nontrivial = bool(feats & {"newline", "lookalike"}) or ("multi-attr" in feats and "quoted-metachar" in feats)
        sets = {"host": ["%s/%s" % (fname, form.id)], "features": sorted(feats), "flavour": [fl]}
        wit = {"files": files_text({fname: data}), "expected": expected, "features": sorted(feats), "desc": dict(job, j=j),
               "observed": res.brief(3000)}
        if res.cls == "wall-timeout":
            out.append(Case(INCONCLUSIVE, key=key, summary="wall timeout"))
            continue
        if res.cls != "ok":
            why = "lookalike" if "lookalike" in feats else "tags-only"
            out.append(Case(VIOLATED, key=key, nontrivial=nontrivial, sig="C05/list-%s/%s/%s" % (res.cls, form.id, why), sets=sets, witness=wit,
                            summary="`list` ended %s on a file with %d well-formed blocks%s: %s" % (
                                res.cls, len(expected), " and look-alikes" if "lookalike" in feats else "", res.err_text()[:300])))
            continue
        listing = res.listing() or {}
        got = [(x.get("line"), x.get("column"), x.get("attributes")) for x in listing.get(fname, [])]
        if got != expected:
            what = "count"
            if len(got) == len(expected):
                for g, e in zip(got, expected):
                    if g[2] != e[2]:
                        what = "attributes"
                        break
                    if g[:2] != e[:2]:
                        what = "position"
                        break
            elif len(got) > len(expected):
                what = "extra-block"
            else:
                what = "missing-block"
            out.append(Case(VIOLATED, key=key, nontrivial=nontrivial, sig="C05/%s/%s" % (what, form.id), sets=sets, witness=wit,
                            summary="listed tags differ (%s): expected %s, got %s" % (what, str(expected)[:400], str(got)[:400])))
            continue
        out.append(Case(HELD, key=key, nontrivial=nontrivial, sets=sets, counters={"tags_round_tripped": len(expected)},
                        sample={"file": data.decode("utf-8", "replace")[:600], "expected": expected[:3]} if nontrivial else None))
    return out


LEVEL_TEXT = ("Sampling of the tag grammar with a print->parse round-trip oracle: thousands (quick) to hundreds of thousands "
              "(thorough) of start tags in random concrete syntax, inside six comment families, with foreign tags and members of "
              "a look-alike family around them; attributes, line and byte column of every listed block must equal what was "
              "printed. Thorough replays a slice under ASan.")
LEVEL_NOTE = "Trusted: fb.FB position accounting; the look-alike family as a reading of the statement."
TECHNIQUE = "runtime monitoring: print->parse round-trip oracle over randomly printed tag syntax + look-alike injection"
