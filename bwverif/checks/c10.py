"""C10 - every diagnostic points at the text it is about.

Oracle: construction truth. Files are written with bwverif.fb; the byte position of every
offending key and of every start tag's '<' and '>' is recorded while writing and compared with
the ranges in the diagnostics (and with the bytes of the file at those ranges).
"""
from .. import fake_ai, fb as fbm, run
from .common import (Case, HELD, VIOLATED, INCONCLUSIVE, bad_outcome, diag_list, files_text, h, lua_script, rng, endpoint_flake)

ID = "C10"
LEVEL = "exploration"
BUILDS = ["rel"]
BUDGET_S = {"quick": 600, "thorough": 1500}
RULE = ("One file per case holding one violating block for each of the seven validators, all written in one comment "
        "layout: line comment (#, //, --), Rust doc comment, one-line block comment followed by content on the same "
        "line, start tag on line k of an n-line block comment that continues m lines after the tag (plain or "
        "star-decorated), tag whose attributes are spread over several lines, HTML comment (html/xml/markdown), Markdown "
        "link comment; x indentation 0..8 x offending key on content line 0 / 1 / last x multi-byte text before the key "
        "x regex key in the middle of a line x LF/CRLF. affects via a one-line diff, Lua via a constant script, AI via "
        "a local fake endpoint. A case is one (file, diagnostic) pair; non-trivial = layout other than a one-line "
        "comment at column 1; distinct = hash of file bytes + code.")
ASSUMPTIONS = [
    "the byte/line accounting of bwverif.fb is correct (it is the same one C03 validates against 39 suffixes)",
    "a hand-written one-hunk unified diff is enough to mark the `affects` block modified (acceptance of git diffs is C01's subject)",
]

HOSTS = {
    # layout -> list of (file name, line-comment opener or None)
    "line": [("f.py", "#"), ("f.rs", "//"), ("f.sql", "--"), ("f.go", "//"), ("f.rb", "#"), ("f.sh", "#")],
    "rustdoc": [("f.rs", "///")],
    "inline": [("f.js", None), ("f.c", None), ("f.css", None), ("f.rs", None), ("f.java", None)],
    "multi": [("f.js", None), ("f.java", None), ("f.rs", None), ("f.go", None), ("f.php", None)],
    "multi-star": [("f.js", None), ("f.java", None), ("f.c", None), ("f.ts", None)],
    "multi-tail": [("f.js", None), ("f.c", None), ("f.rs", None)],
    "multi-2star": [("f.java", None), ("f.js", None)],
    "mltag": [("f.js", None), ("f.java", None), ("f.rs", None)],
    "mltag-star": [("f.java", None), ("f.ts", None)],
    "xml": [("f.html", None), ("f.xml", None), ("f.md", None)],
    "xml-multi": [("f.html", None), ("f.xml", None), ("f.md", None)],
    "md-link": [("f.md", None), ("f.markdown", None)],
    # HTML comments in a Markdown list item: the HTML block starts at a column > 1; one-line / multi-line comment / multi-line tag,
    # content starting on the next line or on the comment's last line
    "md-nested": [("f.md", None), ("f.markdown", None)],
}
LAYOUTS = list(HOSTS)
CODES = ["keep-sorted", "keep-unique", "line-pattern", "line-count", "check-lua", "check-ai", "affects"]
MB = ["", "é ", "日本 ", "\U0001F600 "]


def plan(tier, seed):
    n = 30 if tier == "quick" else 400
    jobs = []
    for layout in LAYOUTS:
        for hi in range(len(HOSTS[layout])):
            for i in range(n):
                jobs.append({"layout": layout, "host": hi, "i": i, "seed": seed})
    return jobs


class _W:
    """Writes one block in a layout and records where things are."""

    def __init__(self, b, r, layout, fname, opener, indent):
        self.b, self.r, self.layout, self.fname, self.opener, self.indent = b, r, layout, fname, opener, indent

    def start(self, attrs):
        b, r, layout = self.b, self.r, self.layout
        ind = " " * self.indent
        src, amap = fbm.start_tag(attrs, "'" if layout == "md-link-dq" else '"')
        prose = r.choice(["", "note ", "keep in sync: ", "é — "])
        if layout in ("line", "rustdoc"):
            form = fbm_form(self.opener, eats=(layout == "rustdoc"))
            b.raw(ind)
            b.open_comment(form)
            b.raw(" " + prose)
            t = b.tag("start", src, amap)
            b.raw(r.choice(["", " trailing words"]))
            b.close_comment()
            b.nl()
            return t, 0   # content line 0 is the (empty) rest of the tag's line
        if layout == "inline":
            b.raw(ind)
            b.open_comment(BLOCK)
            b.raw(" " + prose)
            t = b.tag("start", src, amap)
            b.raw(" ")
            b.close_comment()
            return t, "inline"
        if layout in ("multi", "multi-star", "multi-tail", "multi-2star"):
            form = BLOCK_STAR if layout == "multi-star" else BLOCK_2STAR if layout == "multi-2star" else BLOCK
            before, after = r.randint(0, 3), r.randint(1, 3)
            b.raw(ind)
            b.open_comment(form)
            b.raw(" header")
            for _ in range(before):
                b.comment_nl()
                # (now and then a stray carriage return in the middle of a comment line: not a line break for anybody)
                b.raw(ind + "words " + prose + ("stray\rCR " if r.random() < 0.2 else ""))
            b.comment_nl()
            b.raw(ind + prose)
            t = b.tag("start", src, amap)
            for _ in range(after):
                b.comment_nl()
                b.raw(ind + "more words")
            b.raw(" ")
            b.close_comment()
            if layout == "multi-tail":
                return t, "inline"      # the first content line is the tail of the comment's last line
            b.nl()
            return t, 0
        if layout in ("mltag", "mltag-star"):
            form = BLOCK_STAR if layout == "mltag-star" else BLOCK
            b.raw(ind)
            b.open_comment(form)
            b.raw(" " + prose)
            # tag with attributes on several lines
            off, line, col = b.off, b.line, b.col
            b.raw("<block")
            for k, v in attrs:
                b.comment_nl()
                b.raw(ind + "   " + (k if v is None else '%s="%s"' % (k, v)))
            if r.random() < 0.5:
                b.comment_nl()
                b.raw(ind)
            b.raw(">")
            t = fbm.Tag(kind="start", off=off, line=line, col=col, attrs=amap, src=None, comment=b._cur, in_comment=True,
                        end_off=b.off, end_line=b.line, end_col=b.col - 1)
            b.tags.append(t)
            b.raw(" ")
            if r.random() < 0.5:
                b.comment_nl()
                b.raw(ind + "tail ")
            b.close_comment()
            b.nl()
            return t, 0
        if layout in ("xml", "xml-multi"):
            if self.fname.endswith(".md"):
                ensure_blank(b)
                ind = ""
            b.raw(ind)
            b.open_comment(XML)
            b.raw(" " + prose)
            if layout == "xml-multi":
                b.nl()
                b.raw(ind + "  intro")
                b.nl()
                b.raw(ind + "  ")
            t = b.tag("start", src, amap)
            if layout == "xml-multi":
                b.nl()
                b.raw(ind + "  outro")
                b.nl()
                b.raw(ind)
            else:
                b.raw(" ")
            b.close_comment()
            b.nl()
            if self.fname.endswith(".md"):
                b.nl()
            return t, 0
        if layout == "md-nested":
            ensure_blank(b)
            b.raw(self.bullet + " item %d" % r.randint(0, 99))
            b.nl()
            if r.random() < 0.5:
                b.nl()
            variant = r.choice(["one", "ml-after", "ml-before", "mltag"])
            b.raw(ind)
            b.open_comment(XML)
            b.raw(" " + prose)
            if variant == "ml-before":
                b.nl()
                b.raw(ind + "  intro")
                b.nl()
                b.raw(ind + "  ")
            if variant == "mltag":
                off, line, col = b.off, b.line, b.col
                b.raw("<block")
                for k, v in attrs:
                    b.nl()
                    b.raw(ind + "   " + (k if v is None else '%s="%s"' % (k, v)))
                b.raw(">")
                t = fbm.Tag(kind="start", off=off, line=line, col=col, attrs=amap, src=None, comment=b._cur, in_comment=True,
                            end_off=b.off, end_line=b.line, end_col=b.col - 1)
                b.tags.append(t)
            else:
                t = b.tag("start", src, amap)
            if variant in ("ml-after", "ml-before"):
                for _ in range(r.randint(1, 2)):
                    b.nl()
                    b.raw(ind + "  outro")
                b.nl()
                b.raw(ind)
            else:
                b.raw(" ")
            b.close_comment()
            self.variant = variant
            if r.random() < 0.5:
                return t, "inline"
            b.nl()
            return t, 0
        if layout == "md-link":
            ensure_blank(b)
            form = r.choice([MD_PAREN, MD_DQ])
            if any(v and ("(" in v or ")" in v) for _, v in attrs):
                form = MD_DQ    # a parenthesised link title cannot hold parentheses
            src, amap = fbm.start_tag(attrs, "'" if form is MD_DQ else '"')
            b.open_comment(form)
            b.raw(prose.replace("(", "").replace('"', ""))
            t = b.tag("start", src, amap)
            b.close_comment()
            b.nl()
            b.nl()
            return t, 0
        raise AssertionError(layout)

    def end(self):
        b, layout = self.b, self.layout
        ind = " " * self.indent
        if layout in ("line", "rustdoc"):
            b.raw(ind)
            b.open_comment(fbm_form(self.opener, eats=(layout == "rustdoc")))
            b.raw(" ")
            b.tag("end", fbm.END_TAG)
            b.close_comment()
            b.nl()
        elif layout in ("inline", "multi", "multi-star", "multi-tail", "multi-2star", "mltag", "mltag-star"):
            b.raw(ind)
            b.open_comment(BLOCK)
            b.raw(" ")
            b.tag("end", fbm.END_TAG)
            b.raw(" ")
            b.close_comment()
            b.nl()
        elif layout == "md-nested":
            b.raw(ind)
            b.open_comment(XML)
            b.raw(" ")
            b.tag("end", fbm.END_TAG)
            b.raw(" ")
            b.close_comment()
            b.nl()
            b.nl()
        elif layout in ("xml", "xml-multi"):
            if self.fname.endswith(".md"):
                ensure_blank(b)
                ind = ""
            b.raw(ind)
            b.open_comment(XML)
            b.raw(" ")
            b.tag("end", fbm.END_TAG)
            b.raw(" ")
            b.close_comment()
            b.nl()
            if self.fname.endswith(".md"):
                b.nl()
        else:
            ensure_blank(b)
            b.open_comment(MD_PAREN)
            b.tag("end", fbm.END_TAG)
            b.close_comment()
            b.nl()
            b.nl()


from ..langs import Form, C_BLOCK as BLOCK, C_BLOCK_STAR as BLOCK_STAR, C_BLOCK_2STAR as BLOCK_2STAR, XML_C as XML

MD_PAREN = Form("md-paren", "line", "[//]: # (", ")", family="md")
MD_DQ = Form("md-dquote", "line", '[//]: # "', '"', family="md")
_FORMS = {}


def fbm_form(opener, eats=False):
    k = (opener, eats)
    if k not in _FORMS:
        _FORMS[k] = Form("line" + opener, "line", opener, eats_newline=eats)
    return _FORMS[k]


def ensure_blank(b):
    if not b.at_line_start():
        b.nl()
    t = b.text()
    if t and not t.endswith((b.eol * 2).encode()):
        b.nl()


TEMPLATES = {
    "py": 's = "%s"', "rs": 'const S: &str = "%s";', "sql": "SELECT '%s';", "go": 'var s = "%s"', "rb": 's = "%s"',
    "sh": 's="%s"', "js": 'let s = "%s";', "ts": 'let s = "%s";', "c": 'const char *s = "%s";', "css": 'a::before { content: "%s"; }',
    "java": 'String s = "%s";', "php": '$s = "%s";', "html": "<p>%s</p>", "xml": "<p>%s</p>", "md": "%s", "markdown": "%s",
}


def build(r, layout, fname, opener, eol):
    """Returns (FB, expectations, diff or None, script path needed?)."""
    b = fbm.FB(eol)
    indent = r.choice([0, 0, 1, 2, 4, 8])
    if layout in ("md-link",) or fname.endswith((".md", ".markdown")) or fname.endswith((".yaml", ".py", ".toml")):
        indent = 0 if fname.endswith((".md", ".markdown", ".yaml", ".py")) else indent
    exps = []
    if r.random() < 0.15:
        b.raw("\ufeff")       # UTF-8 byte order mark: bytes of line 1 like any other
    if fname.endswith(".php"):
        b.line_text("<?php")
    if fname.endswith(".xml"):
        b.line_text("<root>")
    if fname.endswith(".go"):
        b.line_text("package main")
    if r.random() < 0.06 and not fname.endswith((".md", ".markdown", ".html", ".xml")):
        # everything sits beyond line 65,536
        filler = TEMPLATES[fname.rsplit(".", 1)[1]] % "filler"
        for _ in range(66000):
            b.line_text(filler)
    w = _W(b, r, layout, fname, opener, indent)
    md = fname.endswith((".md", ".markdown"))
    if layout == "md-nested":
        w.bullet = r.choice(["-", "1.", "*"])
        w.indent = len(w.bullet) + 1
    key_ok = not md   # in Markdown files content lines are paragraphs: keep them simple words
    diff_line = None
    codes = list(CODES)
    r.shuffle(codes)
    T = TEMPLATES[fname.rsplit(".", 1)[1]]
    for ci, code in enumerate(codes):
        name = "k%d" % ci
        mb = r.choice(MB)
        cind = " " * r.choice([0, 0, 2, 5]) if not md else " " * w.indent if layout == "md-nested" else ""
        where = r.choice(["first", "second", "last"])
        # every content line is a string-literal statement of the host language (lexically inert);
        # a line is (indentation, text before the key, key, text after the key, is_offending)
        def whole(k):
            return T % (mb + k)
        if code in ("keep-sorted", "keep-unique"):
            mid = r.random() < 0.5
            if code == "keep-sorted":
                attrs = [("name", name), ("keep-sorted", r.choice(["asc", "", None]))]
                keys, dup = ["a1", "b1", "c1", "d1"], "a0"
                bad_at = {"first": 1, "second": 2, "last": 3}[where]
                if mid:
                    attrs.append(("keep-sorted-pattern", "id: (?P<value>\\w+)"))
            else:
                attrs = [("name", name), ("keep-unique", "id: (?P<value>\\w+)" if mid else None)]
                keys, dup = ["u1", "u2", "u3", "u4"], "u1"
                bad_at = {"first": 1, "second": 2, "last": 3}[where]
            lines = []
            for i, k in enumerate(keys):
                kk = dup if i == bad_at else k
                if mid:
                    # the key's text may also occur earlier on the line, outside the capture
                    pre, post = (T % (mb + (kk + " " if r.random() < 0.5 else "") + "id: \0" + " tail")).split("\0")
                    lines.append((cind, pre, kk, post, i == bad_at))
                else:
                    lines.append((cind, "", whole(kk), r.choice(["", "  "]), i == bad_at))
        elif code == "line-pattern":
            attrs = [("name", name), ("line-pattern", "good")]
            bad_at = {"first": 0, "second": 1, "last": 3}[where]
            lines = []
            for i in range(4):
                lines.append((cind, "", whole("BAD7" if i == bad_at else "good%d" % i), "  " if i == bad_at else "", i == bad_at))
        else:
            lines = [(cind, "", T % "v1", "", False), (cind, "", T % "v2", "", False)]
            if code == "line-count":
                attrs = [("name", name), ("line-count", "<1")]
            elif code == "check-lua":
                attrs = [("name", name), ("check-lua", lua_script("const.lua"))]
            elif code == "check-ai":
                attrs = [("name", name), ("check-ai", "must be fine " + name)]
            else:
                attrs = [("name", name), ("affects", ":no-such-block")]
        if r.random() < 0.3:
            attrs.append(("severity", r.choice(["warning", "info", "ERROR"])))
        tag, first = w.start(attrs)
        for i, (ind_, pre, key, post, is_bad) in enumerate(lines):
            if first == "inline" and i == 0:
                b.raw(" ")
            b.raw(ind_ + pre)
            pos = (b.line, b.col)
            b.raw(key)
            endcol = b.col - 1
            b.raw(post)
            b.nl()
            if md:
                b.nl()   # keep Markdown paragraphs apart so that every key is its own line
            if is_bad:
                exps.append({"code": code, "kind": "key", "name": name, "line": pos[0], "c1": pos[1], "c2": endcol, "text": key,
                             "where": where if not (first == "inline" and i == 0) else "tag-line"})
            if code == "affects" and i == 0:
                diff_line = (b.line - (2 if md else 1), ind_ + pre + key + post)
        w.end()
        if code in ("line-count", "check-lua", "check-ai", "affects"):
            exps.append({"code": code, "kind": "tag", "name": name, "line": tag.line, "c1": tag.col,
                         "line2": tag.end_line, "c2": tag.end_col})
    if fname.endswith(".xml"):
        b.line_text("</root>")
    diff = None
    if diff_line:
        ln, text = diff_line
        diff = ("diff --git a/%s b/%s\n--- a/%s\n+++ b/%s\n@@ -%d,0 +%d,1 @@\n+%s\n" % (fname, fname, fname, fname, ln - 1, ln, text)).encode("utf-8")
    return b, exps, diff


def run_job(job, ctx):
    layout = job["layout"]
    fname, opener = HOSTS[layout][job["host"]]
    r = rng("c10", job["seed"], layout, job["host"], job["i"])
    eol = "\r\n" if r.random() < 0.2 else "\n"
    b, exps, diff = build(r, layout, fname, opener, eol)
    data = b.text()
    ai = fake_ai.instance()
    ai.begin(lambda req: ("reply", "ai says no"))
    root = run.make_repo({fname: data})
    try:
        res = run.run(ctx.bin("rel"), [fname], root, stdin=diff if diff else b"", env=ai.env())
    finally:
        run.rm(root)
    wit = {"files": files_text({fname: data}), "diff": diff.decode("utf-8") if diff else None, "job": job}
    key0 = h([fname, data.decode("utf-8", "replace")])
    if res.cls == "wall-timeout" or endpoint_flake(res):
        return [Case(INCONCLUSIVE, key=key0, summary="wall timeout", evals=1)]
    dl = diag_list(res)
    if bad_outcome(res) or dl is None:
        return [Case(VIOLATED, key=key0, nontrivial=True, sig="C10/%s/run-%s" % (layout, res.cls),
                     summary="run with seven violating blocks ended %s: %s" % (res.cls, res.err_text()[:300]),
                     witness=dict(wit, observed=res.brief(2000)))]
    lines = data.split(b"\n")
    by = {}
    for f, d in dl:
        nm = None
        msg = d.get("message", "")
        for e in exps:
            if (":%s " % e["name"]) in msg:
                nm = e["name"]
        by.setdefault((d.get("code"), nm), []).append(d)
    out = []
    nontrivial = not (layout == "line" and b.comments and all(c.start_col == 1 for c in b.comments))
    for e in exps:
        got = by.get((e["code"], e["name"]), [])
        key = h([key0, e["code"]])
        sets = {"code_layout": ["%s/%s" % (e["code"], layout)], "host": [fname], "key_position": [e.get("where", "tag")]}
        if len(got) != 1:
            out.append(Case(VIOLATED, key=key, nontrivial=nontrivial, sig="C10/%s/%s/count-%d" % (e["code"], layout, len(got)),
                            summary="expected one %s diagnostic for block %s, got %d; stderr %s" % (e["code"], e["name"], len(got), res.err_text()[:300]),
                            witness=dict(wit, expected=e, observed=res.brief(3000)), evals=0, sets=sets))
            continue
        rg = got[0].get("range", {})
        s, en = rg.get("start", {}), rg.get("end", {})
        want_s = (e["line"], e["c1"])
        want_e = (e.get("line2", e["line"]), e["c2"])
        have_s = (s.get("line"), s.get("character"))
        have_e = (en.get("line"), en.get("character"))
        if have_s != want_s or have_e != want_e:
            which = []
            if have_s[0] != want_s[0] or have_e[0] != want_e[0]:
                which.append("line")
            if have_s[1] != want_s[1] or have_e[1] != want_e[1]:
                which.append("column")
            out.append(Case(VIOLATED, key=key, nontrivial=nontrivial,
                            sig="C10/%s/%s/%s/%s" % (e["code"], layout if e["kind"] == "tag" else _lclass(layout), e.get("where", "tag"), "+".join(which)),
                            summary="%s diagnostic of block %s points at %s-%s, but the %s is at %s-%s (layout %s, file %s)" % (
                                e["code"], e["name"], have_s, have_e, "key %r" % e.get("text") if e["kind"] == "key" else "start tag",
                                want_s, want_e, layout, fname),
                            witness=dict(wit, expected=e, got=got[0]), evals=0, sets=sets))
            continue
        # the bytes at the range must be the key / the tag
        ok = True
        if e["kind"] == "key":
            src = lines[e["line"] - 1][e["c1"] - 1:e["c2"]]
            ok = src.decode("utf-8", "replace") == e["text"]
        else:
            ok = lines[e["line"] - 1][e["c1"] - 1:e["c1"]] == b"<" and lines[e["line2"] - 1][e["c2"] - 1:e["c2"]] == b">"
        if not ok:
            out.append(Case(VIOLATED, key=key, nontrivial=nontrivial, sig="C10/%s/%s/bytes" % (e["code"], layout),
                            summary="range does not delimit the expected text", witness=dict(wit, expected=e, got=got[0]),
                            evals=0, sets=sets))
            continue
        out.append(Case(HELD, key=key, nontrivial=nontrivial, evals=0, sets=sets, counters={"diagnostics_matched": 1},
                        sample={"file": fname, "layout": layout, "expected": e, "range": rg}))
    if out:
        out[0].evals = 1
    return out


def _lclass(layout):
    """Layout classes that matter for key positions."""
    if layout in ("multi", "multi-star", "multi-2star", "mltag", "mltag-star", "xml-multi", "md-nested"):
        return "comment-continues-after-tag"
    return layout


LEVEL_TEXT = ("Sampling with a systematic layout matrix: for every comment layout x host language the seven validators each "
              "report on a violating block and the reported range is compared with the recorded byte position of the "
              "offending key / of the start tag's '<' and '>' and with the file's bytes at that range. Held on the "
              "executions observed; the matrix code x layout actually hit is in the evidence.")
LEVEL_NOTE = "Trusted: fb.FB position accounting; fake AI endpoint; the constant Lua script."
TECHNIQUE = "runtime monitoring: construction-truth oracle over diagnostic ranges vs file bytes for a validator x comment-layout matrix"
