"""C14 - --enable/--disable select validators without side effects."""
import itertools
import os

from .. import fake_ai, run, scenario
from .common import (Case, HELD, VIOLATED, INCONCLUSIVE, bad_outcome, files_text, h, lua_script, rng)
from . import c11

ID = "C14"
LEVEL = "exploration"
BUILDS = ["rel"]
BUDGET_S = {"quick": 600, "thorough": 2400}
V = scenario.VALIDATORS
EXHAUSTIVE = {"quick": "all 2^7 subsets of validators for -d and for -e, on each generated tree",
              "thorough": "all 2^7 subsets of validators for -d and for -e, on each generated tree"}
RULE = ("For each generated repository (all seven validators have 0-n violations; `affects` through a diff plus the `**` glob) "
        "the unrestricted run is compared with construction truth, then every subset S of the seven validators is given to "
        "-d and to -e (2 x 128 runs per tree, flag order shuffled, some flags repeated): diagnostics must equal the "
        "unrestricted ones minus / restricted to S and the exit status must follow what remains. Rejection cases: -e X "
        "-d Y and unknown names must exit non-zero with no AI request recorded and no Lua marker written. A case is one "
        "(tree, flag set) execution; non-trivial = S neither empty nor full on a tree with >=4 validators reporting; "
        "distinct = hash of (tree, argv).")
ASSUMPTIONS = ["differential oracle against the unrestricted run of the same tree, itself checked against construction truth",
               "side effects of validation are observable as AI requests and as a marker file written by a Lua script in safe mode"]


def plan(tier, seed):
    ntrees = 10 if tier == "quick" else 150
    jobs = []
    for t in range(ntrees):
        for part in range(8):
            jobs.append({"k": "subsets", "tree": t, "part": part, "seed": seed})
        jobs.append({"k": "reject", "tree": t, "seed": seed})
    return jobs


def make_tree(seed, t):
    r = rng("c14tree", seed, t)
    sc = c11.scripts()
    if t % 3 == 2:
        # tiny tree: a single file with one or two blocks, each violating several rules at once, so that every
        # validator's only block is also some other validator's only block
        s = scenario.Scenario()
        blocks = []
        for k in range(r.choice([1, 1, 2])):
            kinds = r.sample(["keep-sorted", "keep-unique", "line-pattern", "line-count", "check-lua", "check-ai"], r.randint(2, 6))
            for _ in range(40):
                b = scenario.gen_block(r, "t%d" % k, sc, force=kinds)
                if len(b.expected) >= min(2, len(kinds)):
                    break
            blocks.append(b)
        path = "only.py"
        s.files[path] = scenario.render_file(blocks, "#")
        s.blocks[path] = blocks
        s.order.append(path)
        for b in blocks:
            for code, sev in b.expected:
                s.expected.append((path, b.name, code, sev))
            if b.ai_token:
                s.ai[b.ai_token] = b.ai_reply
        diff = scenario.add_affects(r, s, p=0.6)
        return s, diff
    for attempt in range(50):
        s = scenario.gen_scenario(r, sc, nfiles=r.randint(2, 5), min_blocks=2, max_blocks=7)
        diff = scenario.add_affects(r, s)
        if len(s.validators_active()) >= 5 and diff:
            return s, diff
    return s, diff


def execute(ctx, s, diff, flags, extra_env=None):
    ai = fake_ai.instance()
    ai.begin(scenario.ai_script(s))
    env = dict(ai.env())
    if extra_env:
        env.update(extra_env)
    root = run.make_repo(s.files)
    try:
        res = run.run(ctx.bin("rel"), list(flags) + ["**"], root, stdin=diff.encode("utf-8"), env=env, cpu_limit=60)
    finally:
        run.rm(root)
    return res, ai.requests()


def observed(res):
    err = res.err_text()
    if not err.strip():
        return []
    d = res.diagnostics()
    if d is None:
        return None
    return scenario.observed_multiset(d)


def run_job(job, ctx):
    s, diff = make_tree(job["seed"], job["tree"])
    tkey = h(s.files)
    exp0 = sorted(s.expected, key=str)
    wit0 = {"files": files_text(s.files, 2000), "diff": diff[:2000], "job": job}
    base, _ = execute(ctx, s, diff, [])
    got0 = observed(base)
    active = s.validators_active()
    out = []
    if not diff:
        diff = ""
    if bad_outcome(base) or got0 != exp0 or base.rc != (1 if any(sv == 1 for *_x, sv in exp0) else 0):
        return [Case(VIOLATED, key=tkey, nontrivial=True, sig="C14/baseline-differs-from-truth",
                     summary="unrestricted run differs from construction truth: exit %d, got %s expected %s; stderr %s" % (
                         base.rc, str(got0)[:300], str(exp0)[:300], base.err_text()[:200]),
                     witness=dict(wit0, observed=base.brief(3000)))]
    if job["k"] == "reject":
        return _reject(ctx, s, diff, job, tkey, wit0)
    r = rng("c14flags", job["seed"], job["tree"], job["part"])
    subsets = [c for n in range(8) for c in itertools.combinations(V, n)]
    mine = subsets[job["part"]::8]
    for S in mine:
        for flag in ("-d", "-e"):
            if flag == "-e" and not S:
                continue
            names = list(S)
            r.shuffle(names)
            if names and r.random() < 0.4:
                for _ in range(r.choice([1, 1, 2, 4])):
                    names.insert(r.randrange(len(names) + 1), r.choice(list(S)))      # repeated flags: set union
            long = r.random() < 0.3
            argv = []
            for nme in names:
                argv += [("--disable" if flag == "-d" else "--enable") if long else flag, nme]
            res, reqs = execute(ctx, s, diff, argv)
            if flag == "-d":
                want = [e for e in exp0 if e[2] not in S]
            else:
                want = [e for e in exp0 if e[2] in S]
            want_rc = 1 if any(sv == 1 for *_x, sv in want) else 0
            got = observed(res)
            key = h([tkey, argv])
            nontrivial = 0 < len(S) < 7 and len(active) >= 4
            sets = {"flag_subset": ["%s:%s" % (flag, "+".join(S))], "tree": [tkey]}
            problem = None
            if bad_outcome(res) or res.cls == "usage":
                problem = ("run-" + res.cls, "ended %s: %s" % (res.cls, res.err_text()[:200]))
            elif got is None:
                problem = ("stderr-not-json", "stderr not the diagnostics object: %r" % res.err_text()[:200])
            elif got != want:
                miss = [e for e in want if e not in got]
                extra = [e for e in got if e not in want]
                codes = sorted({e[2] for e in miss + extra})
                problem = ("diagnostics/%s/%s" % (flag, "lost" if miss and not extra else "leaked" if extra and not miss else "both"),
                           "with %s: missing %s, unexpected %s (codes %s)" % (argv, miss[:3], extra[:3], codes))
            elif res.rc != want_rc:
                problem = ("exit", "with %s: exit %d, expected %d" % (argv, res.rc, want_rc))
            else:
                # a disabled AI validator must not even be asked
                ai_on = ("check-ai" not in S) if flag == "-d" else ("check-ai" in S)
                if not ai_on and reqs:
                    problem = ("side-effect/ai-request", "check-ai is switched off by %s but %d request(s) reached the endpoint" % (argv, len(reqs)))
            if problem:
                out.append(Case(VIOLATED, key=key, nontrivial=nontrivial, sig="C14/" + problem[0], summary=problem[1], sets=sets,
                                witness=dict(wit0, argv=argv, expected=want, observed=res.brief(3000))))
            else:
                out.append(Case(HELD, key=key, nontrivial=nontrivial, sets=sets,
                                counters={"runs": 1, "diagnostics_compared": len(want)},
                                sample={"argv": argv, "kept": len(want), "of": len(exp0), "exit": res.rc} if nontrivial else None))
    return out


def _reject(ctx, s, diff, job, tkey, wit0):
    """-e with -d, and unknown validator names: non-zero exit before anything is validated."""
    out = []
    work = run.fresh_dir("mark")
    marker = os.path.join(work, "marker")
    # add a block whose Lua script leaves a marker (safe mode) so that "validated anything" is observable
    files = dict(s.files)
    files["zz_marker.py"] = '# <block name="mk" check-lua="%s" marker="%s">\nx\n# </block>\n' % (lua_script("mark.lua"), marker)
    s2 = scenario.Scenario()
    s2.files, s2.ai = files, s.ai
    cases = [
        (["-e", "keep-sorted", "-d", "line-count"], "both"),
        (["-d", "check-lua", "-e", "check-lua"], "both"),
        (["--enable", "check-ai", "--disable", "check-ai"], "both"),
        (["-d", "keep-sorted ", ], "unknown"),
        (["-d", "keepsorted"], "unknown"),
        (["-e", "KEEP-SORTED"], "unknown"),
        (["-e", ""], "unknown"),
        (["-d", "keep-sorted,line-count"], "unknown"),
        (["-e", "check-lua", "-e", "nope"], "unknown"),
        (["--disable", "all"], "unknown"),
    ]
    # control: the marker is written when validation does run
    res, reqs = execute(ctx, s2, diff, [], extra_env={"BLOCKWATCH_LUA_MODE": "safe"})
    control_ok = os.path.exists(marker)
    if os.path.exists(marker):
        os.remove(marker)
    if not control_ok:
        run.rm(work)
        return [Case(INCONCLUSIVE, key=tkey, summary="marker control failed: validation ran but no marker (%s)" % res.err_text()[:200])]
    for argv, kind in cases:
        res, reqs = execute(ctx, s2, diff, argv, extra_env={"BLOCKWATCH_LUA_MODE": "safe"})
        key = h([tkey, argv, "reject"])
        wrote = os.path.exists(marker)
        if wrote:
            os.remove(marker)
        sets = {"rejection": ["%s:%s" % (kind, " ".join(argv))]}
        problem = None
        if res.rc == 0:
            problem = ("accepted", "%s exited 0" % argv)
        elif bad_outcome(res):
            problem = ("crash", "%s ended %s" % (argv, res.cls))
        elif reqs or wrote:
            problem = ("validated-before-rejecting", "%s was rejected (exit %d) only after validation started: %d AI requests, marker=%s" % (argv, res.rc, len(reqs), wrote))
        elif not res.err_text().strip():
            problem = ("silent", "%s rejected without any message" % argv)
        if problem:
            out.append(Case(VIOLATED, key=key, nontrivial=True, sig="C14/reject/%s/%s" % (kind, problem[0]), summary=problem[1], sets=sets,
                            witness=dict(wit0, argv=argv, observed=res.brief(1500))))
        else:
            out.append(Case(HELD, key=key, nontrivial=True, sets=sets, counters={"rejections": 1},
                            sample={"argv": argv, "exit": res.rc, "stderr": res.err_text()[:150]}))
    run.rm(work)
    return out


LEVEL_TEXT = ("Bounded-exhaustive over flag subsets, sampling over trees: on every generated tree all 128 subsets are given to -d "
              "and all 127 non-empty ones to -e (shuffled order, repeated flags, long and short spellings) and compared with "
              "the unrestricted run, which is itself compared with construction truth; rejection cases are checked for "
              "side effects through the AI endpoint's request log and a Lua marker file.")
LEVEL_NOTE = "Trusted: scenario generator + reference models (C06-C09), fake AI endpoint, marker script in safe mode."
TECHNIQUE = "runtime monitoring: differential oracle (restricted vs unrestricted run) over all 2^7 validator subsets + side-effect monitors"
