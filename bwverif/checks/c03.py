"""C03 - blocks are exactly the tag pairs written in comments, in every language.

Oracle: construction truth (fb.FB). Observation: `blockwatch list` (name, line, column,
attributes, order) and the content echoed per block by a check-lua script.
"""
import os

from .. import fb as fbm
from .. import gen, langs, run
from .common import (Case, HELD, VIOLATED, INCONCLUSIVE, TERM, bad_outcome, diag_list, files_text, h,
                     inconclusive_outcome, lua_script, rng)

ID = "C03"
LEVEL = "exploration"
BUILDS = {"quick": ["rel"], "thorough": ["rel", "asan"]}
OPTIONAL_BUILDS = ["asan"]
BUDGET_S = {"quick": 600, "thorough": 2400}
RULE = ("Files are generated per registered suffix from that language's comment forms (line, block, "
        "decorated-star, doc, Markdown link, HTML), code lines and decoy tags in strings/markup, with "
        "nesting <=4, tags alone / after prose / on line k of n / several per comment (start+end, two starts, two ends) / followed by code, "
        "inside class / function / element bodies, inside 30-150 nested constructs, LF or CRLF, ASCII or multi-byte prose, with or without a leading UTF-8 byte order mark; comments inside the code part of string interpolations (JS/TS template literals, JSX "
        "expression containers, shell $( ), Python f-strings, Ruby #{}, Kotlin ${}, C# $\"{}\", PHP embedded in markup). Truth is recorded while writing. A case is one file; it is "
        "non-trivial when it has >=2 blocks and (nesting or a decoy). Distinct = hash of file bytes + suffix.")
ASSUMPTIONS = [
    "the hand-checked language table (bwverif/langs.py) only lists comment/string forms that are such by the language definition",
    "content comparison tolerates one leading line terminator (some grammars include it in the comment node); for Markdown comment forms all leading line terminators (the node takes the blank line that must follow it)",
    "Kotlin files never put code after a block comment on the same line (known finding C03/kotlin-inline, exercised by its own witness)",
    "Java text blocks are not used as decoys in the random workload (known finding C03/java-textblock, own witness); Swift: see known finding swift-comments-swallowed",
    "C/C++ string literals continued with a backslash at the end of the line are only used as decoys in LF files (known finding C03/c-crlf-continuation, own witness)",
    "Markdown: a pair's two tags use the same comment family (link-definition vs HTML); blockwatch pairs them on separate stacks",
]

LAYOUTS = ("own", "multi", "inline", "shared", "double")


def plan(tier, seed):
    jobs = []
    reps = 4 if tier == "quick" else 14
    # systematic sweep: suffix x form x layout x eol x multibyte
    for suffix in langs.ALL_SUFFIXES:
        lang = langs.LANGS[langs.SUFFIX_LANG[suffix]]
        for form in lang["forms"]:
            for layout in LAYOUTS:
                if layout == "multi" and form.kind != "block":
                    continue
                if layout == "inline" and not form.trailing_code:
                    continue
                jobs.append({"k": "sweep", "suffix": suffix, "form": form.id, "layout": layout,
                             "seed": seed, "reps": reps, "flavour": "rel"})
    nrand = 8 if tier == "quick" else 80
    for suffix in langs.ALL_SUFFIXES:
        for i in range(nrand):
            jobs.append({"k": "rand", "suffix": suffix, "i": i, "seed": seed, "n": 20, "flavour": "rel"})
    for suffix in ("md", "markdown"):
        for i in range(6 if tier == "quick" else 60):
            jobs.append({"k": "md-nested", "suffix": suffix, "i": i, "seed": seed, "flavour": "rel"})
    # far positions: blocks beyond line 65535 and tags beyond column 65535 (prose in front of the tag on its line)
    for suffix in (langs.ALL_SUFFIXES if tier == "thorough" else ["py", "rs", "js", "md", "html", "go", "sql", "java"]):
        if suffix != "swift" and langs.SUFFIX_LANG[suffix] != "gomod":      # (66,000 repeated `module` directives are not a go.mod file)
            jobs.append({"k": "far", "suffix": suffix, "seed": seed, "flavour": "rel"})
    # deep: the blocks sit inside 30 / 70 / 150 nested constructs (if-statements, elements, mappings)
    for suffix in langs.ALL_SUFFIXES:
        if langs.SUFFIX_LANG[suffix] in langs.NEST and suffix != "swift":
            jobs.append({"k": "deep", "suffix": suffix, "seed": seed, "flavour": "rel"})
    for suffix in langs.ALL_SUFFIXES:
        if langs.SUFFIX_LANG[suffix] in langs.INTERP:
            for i in range(2 if tier == "quick" else 20):
                jobs.append({"k": "interp", "suffix": suffix, "i": i, "seed": seed, "flavour": "rel"})
    if tier == "thorough":
        for suffix in langs.ALL_SUFFIXES:
            if suffix == "swift":
                continue     # every .swift parse trips the recorded C04 finding (scanner calloc(0)) under ASan
            for i in range(6):
                jobs.append({"k": "rand", "suffix": suffix, "i": i, "seed": seed, "n": 20, "flavour": "asan"})
    return jobs


def _attrs_fn(script):
    def f(idx):
        a = [("name", "b%d" % idx), ("check-lua", script), ("check-lua-pattern", "[\\s\\S]*")]
        if idx % 3 == 1:
            a.append(("data-call", "f\\(x\\)"))     # backslash-escaped parentheses: the only way to write them in a Markdown (...) title
        return a
    return f


def _strip_blank(b):
    """Markdown: the grammar's link-definition / HTML-block nodes take their line terminator and the
    blank line that must follow them; whether those bytes are 'comment' or 'content' is not decided by
    the property, so leading line terminators are ignored on both sides."""
    return b.lstrip(b"\r\n")


def check_file(ctx, suffix, g, flavour, desc, name=None, cpu=10):
    """Run list + validation on one generated file and compare with construction truth."""
    name = name or langs.file_name_for(suffix)
    root = run.make_repo({name: g.data})
    binp = ctx.bins.get(flavour)
    env = dict(TERM)
    if flavour == "asan":
        env["ASAN_OPTIONS"] = "detect_leaks=0:abort_on_error=0"
    try:
        r1 = run.run(binp, ["list"], root, stdin=None, env=env, cpu_limit=cpu)
        r2 = run.run(binp, [], root, stdin=None, env=env, cpu_limit=cpu)
    finally:
        run.rm(root)
    key = h([suffix, g.data.decode("utf-8", "replace")])
    nontrivial = len(g.blocks) >= 2 and (g.meta["nested"] > 0 or g.meta["decoys"] > 0)
    if g.data.startswith(b"\xef\xbb\xbf"):
        g.meta["layouts"] = list(g.meta["layouts"]) + ["bom"]
    sets = {"suffix": [suffix], "suffix_form": ["%s/%s" % (suffix, f) for f in g.meta["forms"]],
            "layout": g.meta["layouts"], "flavour": [flavour]}
    counters = {"blocks_expected": len(g.blocks), "decoys": g.meta["decoys"], "files_" + flavour: 1}
    wit = {"files": files_text({name: g.data}), "desc": desc}

    def bad(sig, summary, extra=None):
        w = dict(wit)
        w["observed"] = {"list": r1.brief(1500), "run": r2.brief(1500)}
        if extra:
            w.update(extra)
        return Case(VIOLATED, key=key, nontrivial=nontrivial, sig=sig, summary=summary, witness=w, evals=2,
                    sets=sets, counters=counters)

    for r in (r1, r2):
        if inconclusive_outcome(r):
            return Case(INCONCLUSIVE, key=key, summary="wall timeout on %s" % name, evals=2)
    lang = langs.SUFFIX_LANG[suffix]
    if r1.cls != "ok":
        return bad("C03/%s/list-%s" % (lang, r1.cls), "list failed (%s) on a well-nested %s file: %s" % (
            r1.cls, suffix, r1.err_text()[:300]))
    listing = r1.listing()
    if listing is None:
        return bad("C03/%s/list-not-json" % lang, "list output is not one JSON object")
    exp = [{"name": b.name, "line": b.line, "column": b.col, "attributes": b.attrs} for b in g.blocks]
    got_raw = listing.get(name, [])
    got = [{"name": x.get("name"), "line": x.get("line"), "column": x.get("column"),
            "attributes": x.get("attributes")} for x in got_raw]
    if set(listing) - {name}:
        return bad("C03/%s/extra-file" % lang, "list reports files that were not written: %s" % sorted(listing))
    if got != exp:
        what = "count" if len(got) != len(exp) else None
        if what is None:
            for e, o in zip(exp, got):
                for fld in ("name", "line", "column", "attributes"):
                    if e[fld] != o[fld]:
                        what = fld
                        break
                if what:
                    break
        if len(got) == len(exp) and sorted(map(str, got)) == sorted(map(str, exp)):
            what = "order"
        return bad("C03/%s/blocks-%s" % (lang, what),
                   "listed blocks differ from the tags written in comments (%s): expected %s got %s" % (
                       what, [(e["name"], e["line"], e["column"]) for e in exp],
                       [(o["name"], o["line"], o["column"]) for o in got]),
                   {"expected": exp})
    # content echo
    if r2.cls != "fail":
        return bad("C03/%s/echo-run-%s" % (lang, r2.cls), "validation run with echo script ended %s: %s" % (
            r2.cls, r2.err_text()[:300]))
    dl = diag_list(r2)
    if dl is None:
        return bad("C03/%s/echo-not-json" % lang, "stderr is not the diagnostics object")
    echoed = {}
    for f, d in dl:
        if d.get("code") != "check-lua":
            continue
        msg = (d.get("data") or {}).get("lua_error", "")
        nm, _, content = msg.partition("|")
        echoed.setdefault(nm, []).append(content)
    for b in g.blocks:
        strip = _strip_blank if b.start.comment.form.blank_around else fbm.strip_one_newline
        want = strip(g.fb.content_of(b)).decode("utf-8")
        gots = echoed.get(b.name, [])
        if len(gots) != 1:
            return bad("C03/%s/echo-count" % lang, "block %s echoed %d times" % (b.name, len(gots)))
        have = strip(gots[0].encode("utf-8")).decode("utf-8")
        if have != want:
            return bad("C03/%s/content" % lang, "content of %s differs: expected %r got %r" % (b.name, want[:200], have[:200]))
    counters["blocks_matched"] = len(g.blocks)
    counters["contents_matched"] = len(g.blocks)
    sample = {"suffix": suffix, "file": g.data.decode("utf-8", "replace")[:700],
              "expected_blocks": [(b.name, b.line, b.col, b.depth) for b in g.blocks]}
    return Case(HELD, key=key, nontrivial=nontrivial, evals=2, sets=sets, counters=counters, sample=sample)


def run_job(job, ctx):
    script = lua_script("echo.lua")
    suffix = job["suffix"]
    lang = langs.SUFFIX_LANG[suffix]
    flavour = job.get("flavour", "rel")
    if flavour not in ctx.bins:
        return [Case(INCONCLUSIVE, key=h(job), summary="build %s unavailable" % flavour, evals=0)]
    out = []
    if job["k"] == "sweep":
        for rep in range(job["reps"]):
            for eol in ("\n", "\r\n"):
                for mb in (False, True):
                    r = rng("c03", job["seed"], suffix, job["form"], job["layout"], rep, eol, mb)
                    layouts = (job["layout"],) if job["layout"] not in ("shared", "double") else (job["layout"], "own")
                    o = gen.Opts(forms=[job["form"]], layouts=layouts, eol=eol, multibyte=mb, bom=(mb and rep % 3 == 2),
                                 attrs_fn=_attrs_fn(script), max_depth=3, max_blocks=8, foreign=True)
                    g = gen.gen_file(r, lang, o)
                    out.append(check_file(ctx, suffix, g, flavour, dict(job, rep=rep, eol=eol, mb=mb)))
    elif job["k"] == "rand":
        for j in range(job["n"]):
            r = rng("c03r", job["seed"], suffix, job["i"], j)
            o = gen.Opts(eol=r.choice(["\n", "\n", "\r\n"]), multibyte=r.random() < 0.5,
                         attrs_fn=_attrs_fn(script), max_depth=4, max_items=6, max_blocks=14, foreign=True,
                         final_newline=r.random() < 0.85, bom=r.random() < 0.12,
                         container=("wrap" if r.random() < 0.25 else None))     # inside a class / function / element body
            g = gen.gen_file(r, lang, o)
            # the file may live in a sub-directory (whole-name suffixes such as Makefile / go.mod are looked up by base name)
            where = r.choice(["", "", "pkg/", "a.b/c d/"])
            out.append(check_file(ctx, suffix, g, flavour, dict(job, j=j), name=where + langs.file_name_for(suffix)))
    elif job["k"] == "md-nested":
        for j in range(6):
            r = rng("c03md", job["seed"], suffix, job["i"], j)
            out.append(check_file(ctx, suffix, _md_nested(r, script), flavour, dict(job, j=j)))
    elif job["k"] == "deep":
        for j, n in enumerate((30, 70, 70, 150)):
            r = rng("c03deep", job["seed"], suffix, j)
            o = gen.Opts(eol=r.choice(["\n", "\r\n"]) if j == 2 else "\n", attrs_fn=_attrs_fn(script), max_depth=2, max_blocks=5, container=("deep", n), decoys=(j % 2 == 0))
            g = gen.gen_file(r, lang, o)
            out.append(check_file(ctx, suffix, g, flavour, dict(job, j=j)))
    elif job["k"] == "far":
        for j, (fl, lp) in enumerate(((66000, 0), (0, 70000), (300, 300))):
            r = rng("c03far", job["seed"], suffix, j)
            o = gen.Opts(eol="\n", attrs_fn=_attrs_fn(script), max_depth=2, max_blocks=4, filler_lines=fl, long_prose=lp, decoys=False)
            g = gen.gen_file(r, lang, o)
            g.meta["layouts"] = list(g.meta["layouts"]) + ["far-lines" if fl > 65535 else "far-columns" if lp > 65535 else "far-control"]
            # a megabyte of source may legitimately cost seconds of parsing (C04 owns the "terminates promptly" question)
            out.append(check_file(ctx, suffix, g, flavour, dict(job, j=j), cpu=120))
    elif job["k"] == "interp":
        for j in range(6):
            r = rng("c03i", job["seed"], suffix, job["i"], j)
            out.append(check_file(ctx, suffix, _interp_file(r, lang, script), flavour, dict(job, j=j)))
    elif job["k"] == "witness-file":
        out.append(_file_witness(ctx, job))
    elif job["k"] == "witness-c-crlf-continuation":
        out.append(_c_crlf_witness(ctx, script))
    elif job["k"] == "witness-kotlin-inline":
        out.append(_kotlin_witness(ctx, script))
    elif job["k"] == "witness-java-textblock":
        out.append(_java_witness(ctx, script))
    return out


def _md_nested(r, script):
    """Markdown: HTML comments inside list items and block quotes (the HTML block then starts at a column > 1)."""
    b = fbm.FB()
    form = langs.XML_C
    n = 0
    for _ in range(r.randint(1, 4)):
        kind = r.choice(["list", "quote", "list2", "top"])
        first, cont = {"list": ("- item\n\n", "  "), "list2": ("1. item\n\n", "   "), "quote": ("> quote\n>\n", "> "), "top": ("", "")}[kind]
        b.raw(first)
        depth = r.choice([1, 1, 2])
        for d in range(depth):
            src, attrs = fbm.start_tag(_attrs_fn(script)(n))
            n += 1
            b.raw(cont)
            b.open_comment(form)
            b.raw(" " + r.choice(["", "note ", "é "]))
            b.tag("start", src, attrs)
            if kind != "top" and r.random() < 0.4:
                # the comment goes on for more lines after the tag, and the content may start on the comment's last line
                for _ in range(r.randint(1, 2)):
                    b.nl()
                    b.raw(cont + "outro")
                b.nl()
                b.raw(cont)
            else:
                b.raw(" ")
            b.close_comment()
            if kind in ("list", "list2") and r.random() < 0.5:
                b.raw(" tail %d" % n)
            b.nl()
            b.raw(cont + "text %d" % n)
            b.nl()
            b.raw((cont.rstrip() if kind == "quote" else "") + "\n")
        for d in range(depth):
            b.raw(cont)
            b.open_comment(form)
            b.raw(" ")
            b.tag("end", fbm.END_TAG)
            b.raw(" ")
            b.close_comment()
            b.nl()
            b.raw((cont.rstrip() if kind == "quote" else "") + "\n")
        b.raw("\nparagraph\n\n")
    blocks = b.blocks()
    return gen.GenFile("markdown", b, blocks, {"layouts": ["md-nested"], "forms": ["xml"], "decoys": 0,
                                               "max_depth": 2, "nested": sum(1 for x in blocks if x.depth), "blocks": len(blocks)})


def _interp_file(r, lang, script):
    """Tags in comments written inside the code part of a string interpolation / embedded code: comments like any other, although
    an ancestor of the comment node is a string, template or markup node."""
    l = langs.LANGS[lang]
    b = fbm.FB()
    for line in l["prologue"]:
        b.line_text(line)
    n = [0]
    plain = l["forms"][0]

    def comment_with(kind, src, attrs, interp):
        n[0] += 1
        if interp:
            pre, form, post = r.choice(langs.INTERP[lang])
            b.raw(pre.replace("%d", str(n[0])))
            b.open_comment(form)
            b.raw(" ")
            b.tag(kind, src, attrs)
            b.raw(" " if form.kind == "block" else "")
            b.close_comment()
            b.raw(post)
            b.nl()
        else:
            b.open_comment(plain)
            b.raw(" ")
            b.tag(kind, src, attrs)
            b.raw(" " if plain.kind == "block" else "")
            b.close_comment()
            b.nl()

    idx = 0
    for _ in range(r.randint(1, 3)):
        depth = r.choice([1, 1, 2])
        kinds = []
        for d in range(depth):
            src, attrs = fbm.start_tag(_attrs_fn(script)(idx))
            idx += 1
            it = r.random() < 0.7
            kinds.append(it)
            comment_with("start", src, attrs, it)
            b.line_text(r.choice(l["code"]))
        for d in range(depth):
            # at least one of a pair's two tags sits in an interpolation
            comment_with("end", fbm.END_TAG, None, r.random() < 0.7 or not kinds[depth - 1 - d])
            if r.random() < 0.5:
                b.line_text(r.choice(l["code"]))
    for line in l["epilogue"]:
        b.line_text(line)
    blocks = b.blocks()
    return gen.GenFile(lang, b, blocks, {"layouts": ["interp"], "forms": ["interp"], "decoys": 1, "max_depth": 2,
                                         "nested": sum(1 for x in blocks if x.depth), "blocks": len(blocks)})


def _file_witness(ctx, job):
    """A recorded file (bwverif/witness/*.json: text + the blocks written in its comments) replayed through `list`."""
    import json
    w = json.load(open(os.path.join(os.path.dirname(os.path.dirname(os.path.abspath(__file__))), "witness", job["file"])))
    suffix = job["suffix"]
    name = langs.file_name_for(suffix)
    root = run.make_repo({name: w["data"].encode("utf-8")})
    try:
        r1 = run.run(ctx.bins["rel"], ["list"], root, stdin=None, env=dict(TERM))
    finally:
        run.rm(root)
    key = h(["witness-file", job["file"]])
    listing = r1.listing() if r1.cls == "ok" else None
    got = [[x.get("name"), x.get("line"), x.get("column")] for x in (listing or {}).get(name, [])]
    if listing is not None and got == w["blocks"]:
        return Case(HELD, key=key, nontrivial=False, evals=1, counters={"witness_files_ok": 1})
    lang = langs.SUFFIX_LANG[suffix]
    return Case(VIOLATED, key=key, nontrivial=False, evals=1, sig="C03/%s/%s" % (lang, "list-" + r1.cls if listing is None else "blocks-differ"),
                summary="recorded %s file: list ended %s: %s" % (suffix, r1.cls, r1.err_text()[:200]),
                witness={"files": {name: w["data"]}, "expected": w["blocks"], "observed": r1.brief(1500)})


def _c_crlf_witness(ctx, script):
    """Deterministic reproduction of the recorded tree-sitter-c limitation: in a CRLF file a backslash line continuation inside a
    string literal is not recognised, so a `//` on the continued line is a comment node although it is inside the literal."""
    b = fbm.FB("\r\n")
    b.line_text('const char *m = "a \\')
    b.line_text('// <block name="in-string">";')
    src, attrs = fbm.start_tag(_attrs_fn(script)(0))
    b.open_comment(langs.C_LINE); b.raw(" "); b.tag("start", src, attrs); b.close_comment(); b.nl()
    b.line_text("int x = 1;")
    b.open_comment(langs.C_LINE); b.raw(" "); b.tag("end", fbm.END_TAG); b.close_comment(); b.nl()
    g = gen.GenFile("c", b, b.blocks(), {"layouts": ["own"], "forms": ["line"], "decoys": 1, "max_depth": 1, "nested": 0, "blocks": 1})
    c = check_file(ctx, "c", g, "rel", {"k": "witness-c-crlf-continuation"})
    if c.status == VIOLATED:
        c.sig = "C03/c-crlf-continuation/" + c.sig.split("/", 2)[2]
    return c


def _java_witness(ctx, script):
    """Deterministic reproduction of the recorded tree-sitter-java limitation: `//` inside a text block is a comment node."""
    b = fbm.FB()
    b.line_text("class A {")
    b.line_text('  String m1 = """')
    b.line_text('    // <block name="in-text-block">')
    b.line_text('    """;')
    src, attrs = fbm.start_tag(_attrs_fn(script)(0))
    b.raw("  ")
    b.open_comment(langs.C_LINE); b.raw(" "); b.tag("start", src, attrs); b.close_comment(); b.nl()
    b.line_text("  int x = 1;")
    b.raw("  ")
    b.open_comment(langs.C_LINE); b.raw(" "); b.tag("end", fbm.END_TAG); b.close_comment(); b.nl()
    b.line_text("}")
    g = gen.GenFile("java", b, b.blocks(), {"layouts": ["own"], "forms": ["line"], "decoys": 1, "max_depth": 1, "nested": 0, "blocks": 1})
    c = check_file(ctx, "java", g, "rel", {"k": "witness-java-textblock"})
    if c.status == VIOLATED:
        c.sig = "C03/java-textblock/" + c.sig.split("/", 2)[2]
    return c


def _kotlin_witness(ctx, script):
    """Deterministic reproduction of the recorded tree-sitter-kotlin-ng limitation."""
    b = fbm.FB()
    form = langs.C_BLOCK
    b.line_text("val t3 = 5")
    b.open_comment(form)
    b.raw(" plain ")
    b.close_comment()
    b.raw(" val x = 1")
    b.nl()
    src, attrs = fbm.start_tag(_attrs_fn(script)(0))
    b.open_comment(form); b.raw(" "); b.tag("start", src, attrs); b.raw(" "); b.close_comment(); b.nl()
    b.line_text("val q = 1")
    b.open_comment(form); b.raw(" "); b.tag("end", fbm.END_TAG); b.raw(" "); b.close_comment(); b.nl()
    g = gen.GenFile("kotlin", b, b.blocks(), {"layouts": ["inline"], "forms": ["block"], "decoys": 0,
                                              "max_depth": 1, "nested": 0, "blocks": 1})
    c = check_file(ctx, "kt", g, "rel", {"k": "witness-kotlin-inline"})
    if c.status == VIOLATED:
        c.sig = "C03/kotlin-inline/" + c.sig.split("/", 2)[2]
    return c


def finalize(agg, tier, coverage):
    problems = []
    seen = agg["sets"].get("suffix", set())
    if len(seen) < 39:
        problems.append("only %d of 39 suffixes exercised" % len(seen))
    return problems

LEVEL_TEXT = ("Sampling of an unbounded input space with a systematic part: every registered suffix x every comment "
              "form of its language x tag layout x LF/CRLF x ASCII/multi-byte is generated at least twice, plus random "
              "nested files; each file's listed blocks (name, line, byte column, attributes, order) and each block's "
              "echoed content are compared with the truth recorded while the file was written. Held on the executions "
              "observed, not a proof; thorough replays a slice under an ASan build with the C parsers instrumented.")
LEVEL_NOTE = ("Trusted: the hand-checked language table, git-free scratch repos, Python's byte/line accounting. "
              "Not covered: comment forms outside the table, Kotlin inline layout (known finding).")
TECHNIQUE = "runtime monitoring: construction-truth oracle over `blockwatch list` and Lua-echoed content of generated files"
