"""C06 - keep-sorted reports a block iff its keys are out of order (reference model, bounded-exhaustive)."""
import itertools

from .. import models, vbatch
from .common import Case, HELD, VIOLATED, INCONCLUSIVE, h, rng

ID = "C06"
LEVEL = "exploration"
BUILDS = ["rel"]
BUDGET_S = {"quick": 600, "thorough": 3000}
MAXLEN = {"quick": 4, "thorough": 5}
EXHAUSTIVE = {"quick": "all line sequences of length <=4 over the per-mode alphabets x directions x pattern modes x formats",
              "thorough": "all line sequences of length <=5 over the per-mode alphabets x directions x pattern modes x formats"}

ALPHA = {
    "none": ["a", "b", "ab", "  a", "a  ", "", "   ", "2", "10", "9.5", "-3", "2.0", "\u3000b", "\u00a0"],
    "group": ["id: a", "id: b", "id: ab", "  id: a", "id: a  ; x", "", "   ", "id: 2", "id: 10", "other", "id:", "zz id: b",
              "a id: a"],      # the key's text also occurs earlier on the line, outside the capture
    "plain": ["x a", "y b", "ab", "  a", "a  ", "", "   ", "q 2", "10", "z 9.5", "k\ta", "b"],
}
ALPHA["group2"] = ALPHA["group"]
ALPHA["anchored"] = ALPHA["group"]
ALPHA["maybe-empty"] = ALPHA["none"]
ALPHA["optional-group"] = ALPHA["group"]
ALPHA_NUM = {
    "none": ["2", "10", "9.5", "-3", "2.0", "", "   ", "  2", "10  ", "1e1", "007", "0010"],       # zero-padded: longer text, smaller number
    "group": ["id: 2", "id: 10", "id: 9.5", "id: -3", "id: 2.0", "", "other", "  id: 2", "id: 10  ; x", "id: 1e1", "id: 007", "id: 0010"],
    "plain": ["x 2", "10", "z 9.5", "-3", "q 2.0", "", "   ", "  2", "10  ", "k\t1e1", "y 007", "0010"],
}
ALPHA_NUM["group2"] = ALPHA_NUM["group"]
ALPHA_NUM["anchored"] = ALPHA_NUM["group"]
PATTERN = {"none": None, "group": r"id: (?P<value>\S+)", "plain": r"\S+$", "group2": r"(id|zz id): (?P<value>\S+)( ;)?",
           "anchored": r"^\s*id: (?P<value>\S+)$", "maybe-empty": r"\d*", "optional-group": r"id: (?P<value>[a-z]+)|\S+"}
DIRECTIONS = ["asc", "desc", "", "ASC", "Desc", None]   # None = bare attribute

RULE = ("Bounded-exhaustive: every sequence of up to MAXLEN lines over a 10-12 symbol alphabet (ordered, equal, "
        "prefix-related, indented, trailing-blank, blank, numeric-looking lines; matching / non-matching lines for the "
        "pattern modes) x {asc, desc, empty, ASC, Desc, bare} x {no pattern, `value` group, plain regex, `value` group between unnamed groups} x "
        "{lexicographic, numeric over all-numeric alphabets}; plus random long blocks (<=400 lines), Unicode keys, CRLF "
        "and nested blocks. Each block is judged by a reference model written from the statement: presence of the "
        "diagnostic, at most one, and the designated key (line + byte columns -> bytes of the file). A case is one "
        "block; non-trivial = >=2 keys; distinct = hash of (attributes, lines).")
ASSUMPTIONS = [
    "simple layout only (tags in their own line comments) so that C10's position questions do not leak in",
    "regexes limited to constructs with identical semantics in Python re and Rust regex",
    "numeric keys exclude -0, NaN and infinities (the statement's 'as numbers' is silent on them)",
]


def _attrs(direction, mode, numeric):
    a = [("keep-sorted", direction)]
    if PATTERN[mode]:
        a.append(("keep-sorted-pattern", PATTERN[mode]))
    if numeric:
        a.append(("keep-sorted-format", "numeric"))
    return a


def plan(tier, seed):
    jobs = []
    maxlen = MAXLEN[tier]
    for mode in ("none", "group", "plain", "group2", "anchored", "maybe-empty", "optional-group"):
        for numeric in (False, True):
            if numeric and mode in ("maybe-empty", "optional-group"):
                continue      # an empty key is not a number: that combination belongs to C13
            alpha = (ALPHA_NUM if numeric else ALPHA)[mode]
            for di, direction in enumerate(DIRECTIONS):
                jobs.append({"k": "enum", "mode": mode, "numeric": numeric, "dir": di, "len": (0, min(3, maxlen)), "first": None})
                for L in range(4, maxlen + 1):
                    for first in range(len(alpha)):
                        jobs.append({"k": "enum", "mode": mode, "numeric": numeric, "dir": di, "len": (L, L), "first": first})
    nrand = 16 if tier == "quick" else 400
    for i in range(nrand):
        jobs.append({"k": "rand", "i": i, "seed": seed})
    jobs.append({"k": "nested", "seed": seed})
    jobs.append({"k": "huge", "seed": seed})
    # the sampled jobs run first: when a time budget ends a run early, what is cut is the tail of the exhaustive enumeration
    # (whose shorter sequences the quick tier covers completely), not the only part that draws long blocks and extreme numbers
    jobs.sort(key=lambda j: j["k"] == "enum")
    return jobs


def model(b):
    a = dict(b.attrs)
    r = models.keep_sorted(b.content, a.get("keep-sorted") or "", a.get("keep-sorted-pattern"),
                           a.get("keep-sorted-format") == "numeric")
    if r is None:
        return None
    return {"line_idx": r[0], "key": r[1], "c1": r[2], "c2": r[3]}


def _nontrivial(b):
    a = dict(b.attrs)
    return len(models.keys_of(b.content, a.get("keep-sorted-pattern"))) >= 2


def _sets(b, exp):
    a = dict(b.attrs)
    return {"config": ["%s/%s/%s" % (a.get("keep-sorted"), "pattern" if a.get("keep-sorted-pattern") else "-",
                                      a.get("keep-sorted-format", "-"))],
            "verdict": ["violation" if exp else "in-order"]}


ATTRS_NESTED = [[("keep-sorted", "asc")], [("keep-sorted", "desc")], [("keep-sorted", "asc"), ("keep-sorted-pattern", "name=\\\"(?P<value>\\w+)\\\"")]]


def run_job(job, ctx):
    acc = vbatch.Acc()
    if job["k"] == "enum":
        mode, numeric = job["mode"], job["numeric"]
        alpha = (ALPHA_NUM if numeric else ALPHA)[mode]
        direction = DIRECTIONS[job["dir"]]
        lo, hi = job["len"]
        blocks = []

        def flush():
            if blocks:
                for c in vbatch.run_batch(ctx, blocks, "hash", "keep-sorted", model, sig_prefix="C06",
                                          nontrivial_fn=_nontrivial, sets_fn=_sets):
                    acc.add(c)
                # the same sequences with the first line on the start tag's line and the last line on the end tag's line
                # (no empty leading piece, no trailing line terminator), LF and CRLF
                for eol in (("\n", "\r\n") if ctx.tier == "thorough" else ("\r\n",)):
                    inl = []
                    for b in blocks:
                        ls = b.lines
                        if not ls or any(set(l) & set("/*\u3000\u00a0") for l in ls):
                            continue
                        inl.append(vbatch.BBlock(b.attrs, ls[1:-1] if len(ls) >= 2 else [], inline_first=" " + ls[0],
                                                 inline_last=ls[-1] if len(ls) >= 2 else None))
                    if inl:
                        for c in vbatch.run_batch(ctx, inl, "c", "keep-sorted", model, eol=eol, sig_prefix="C06", nontrivial_fn=_nontrivial, sets_fn=_sets):
                            acc.add(c)
                del blocks[:]

        for L in range(lo, hi + 1):
            if job["first"] is None:
                seqs = itertools.product(alpha, repeat=L)
            else:
                seqs = ((alpha[job["first"]],) + rest for rest in itertools.product(alpha, repeat=L - 1))
            for seq in seqs:
                blocks.append(vbatch.BBlock(_attrs(direction, mode, numeric), list(seq)))
                if len(blocks) >= 2500:
                    flush()
        flush()
    elif job["k"] == "huge":
        # one block of 70,000 lines whose only disorder sits beyond line 65,536, behind 100 ordinary blocks; and its in-order twin
        lines = ["k%06d" % i for i in range(70000)]
        bad = list(lines)
        bad[69990], bad[69991] = bad[69991], bad[69990]
        blocks = [vbatch.BBlock([("keep-sorted", "asc")], ["a", "b"]) for _ in range(100)]
        blocks += [vbatch.BBlock([("keep-sorted", "asc")], bad), vbatch.BBlock([("keep-sorted", "asc")], lines),
                   vbatch.BBlock([("keep-sorted", "desc")], list(reversed(bad)))]
        for c in vbatch.run_batch(ctx, blocks, "hash", "keep-sorted", model, sig_prefix="C06", prefix="huge", nontrivial_fn=_nontrivial, sets_fn=_sets):
            acc.add(c)
    elif job["k"] == "nested":
        # nested blocks: the inner blocks' tag lines are ordinary lines (keys) of the outer block, and each inner block is
        # judged on its own content
        import itertools as _it
        blocks = []
        k = 0
        for attrs in ATTRS_NESTED:
            for pre, inner, post in _it.product([[], ["a"], ["z"], ["b", "a"]], [["m"], ["a", "a"], []], [[], ["a"], ["zz"]]):
                lines = list(pre) + ['# <block name="in' + str(k) + '">'] + list(inner) + ["# </block>"] + list(post)
                k += 1
                blocks.append(vbatch.BBlock(list(attrs), lines))
        for c in vbatch.run_batch(ctx, blocks, "hash", "keep-sorted", model, sig_prefix="C06", prefix="outer", nontrivial_fn=_nontrivial, sets_fn=_sets):
            acc.add(c)
    else:
        r = rng("c06", job["seed"], job["i"])
        blocks = []
        for j in range(40):
            blocks.append(_random_block(r))
        _second_validator(blocks)
        eol = "\r\n" if job["i"] % 3 == 0 else "\n"
        for c in vbatch.run_batch(ctx, blocks, "cm" if job["i"] % 4 == 2 else "hash", "keep-sorted", model, eol=eol, bom=(job["i"] % 3 == 1), ignore_codes=("line-count",), sig_prefix="C06",
                                  nontrivial_fn=_nontrivial, sets_fn=_sets):
            acc.add(c)
    return acc.to_cases(h(job))


WORDS = ["alpha", "beta", "Beta", "gamma", "delta", "épée", "zeta", "Zeta", "日本", "ß", "a", "aa", "ab", "b", "_x", "10", "9", "100",
         "ñ", "z", "é", "e", "f1", "f10", "f2"]


def _second_validator(blocks):
    """Every fifth block also carries a violated rule of another synchronous validator: two validators report on the same file."""
    for j, b in enumerate(blocks):
        if j % 5 == 2 and any(l.strip() for l in b.lines):      # not the first block: the main validator is detected (and joined) first
            b.attrs = list(b.attrs) + [("line-count", "<1")]


def _random_block(r):
    numeric = r.random() < 0.3
    mode = r.choice(["none", "none", "group", "plain", "group2"])
    direction = r.choice(DIRECTIONS)
    n = r.choice([2, 3, 5, 8, 20, 60, 200, 400])
    desc = (direction or "").lower() == "desc"
    # mostly sorted sequence with a few perturbations, so that both verdicts occur
    if numeric and r.random() < 0.4:
        # numbers whose differences are far below (or whose size is far above) everyday magnitudes: neighbours closer than
        # f64::EPSILON, integers around 2^53 (several spellings of one double are EQUAL neighbours), very large and very small exponents
        fam = r.choice(["tiny", "near-half", "big-int", "exponents"])
        if fam == "tiny":
            vals = [(k, r.choice(["%de-17" % k, "%dE-17" % k, "0.%s%d" % ("0" * (16 if 0 < k < 10 else 15), k) if 0 < k < 100 else "%de-17" % k]))
                    for k in (r.randint(-30, 30) for _ in range(n)) if k != 0]
            vals = [(float(t), t) for _, t in vals]
        elif fam == "near-half":
            vals = [(0.5 + k * 2.0 ** -53, repr(0.5 + k * 2.0 ** -53)) for k in (r.randint(0, 40) for _ in range(n))]
        elif fam == "big-int":
            vals = [(float(t), t) for t in (str(2 ** 53 + r.randint(-6, 6)) for _ in range(n))]
        else:
            vals = [(float(t), t) for t in ("%s%de%s%d" % (r.choice(["", "-"]), r.randint(1, 9), r.choice(["", "+", "-"]), r.choice([0, 1, 17, 100, 300]))
                                            for _ in range(n))]
        vals.sort(key=lambda v: v[0], reverse=desc)
        keys = [t for _, t in vals]
    elif numeric:
        vals = sorted((r.choice([r.randint(-50, 50), round(r.uniform(-9, 9), 2), r.randint(0, 5)]) for _ in range(n)),
                      reverse=desc)
        keys = [("%g" % v if r.random() < 0.8 else "%.1f" % v) for v in vals]
        keys = [k for k in keys if k not in ("-0", "-0.0")]
    else:
        keys = sorted((r.choice(WORDS) + r.choice(["", "", "1", "2", "x"]) for _ in range(n)), reverse=desc)
    for _ in range(r.choice([0, 0, 1, 2])):
        if len(keys) >= 2:
            i = r.randrange(len(keys))
            j = r.randrange(len(keys))
            keys[i], keys[j] = keys[j], keys[i]
    lines = []
    for k in keys:
        ind = r.choice(["", "", "  ", "\t"] + ([] if r.random() < 0.7 else ["\x0c", "\u2028", "\u0085 ", "\r", "\u3000\t"]))      # odd White_Space
        if mode == "none":
            lines.append(ind + k + r.choice(["", "", " "] + ([] if r.random() < 0.7 else ["\r", " \r", "\x0b", "\u3000", "\u00a0"])))
        elif mode in ("group", "group2"):
            lines.append(ind + "id: " + k + r.choice(["", " ; trailing"]))
        else:
            lines.append(ind + r.choice(["", "pre ", "x y "]) + k)
        if r.random() < 0.15:
            lines.append(r.choice(["", "   ", "other" if mode == "group" else ""]))
    return vbatch.BBlock(_attrs(direction, mode, numeric), lines)


LEVEL_TEXT = ("Bounded-exhaustive comparison with an executable reference model: every line sequence up to length 4 (quick) / "
              "5 (thorough) over alphabets chosen to contain each boundary the statement names, times every direction "
              "spelling, pattern mode and format, is executed by the real binary (thousands of blocks per process) and "
              "judged on presence, count and designated key; random long/Unicode/CRLF blocks add reach. Exhaustive "
              "within the stated bounds, sampling beyond them.")
LEVEL_NOTE = ("Trusted: the reference model (bwverif/models.py, ~40 lines, written from the statement), Python re == Rust "
              "regex on the three fixed patterns, Python host file lexing (content lines are inert identifiers/numbers).")
TECHNIQUE = "runtime monitoring: reference-model oracle over bounded-exhaustive batches of blocks executed by the real binary"
