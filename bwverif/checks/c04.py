"""C04 - no crash or hang on any input (the sanitizer property).

Oracle: outcome class only. Builds: rel (exit/panic/hang), dbg (overflow checks and debug
assertions), asan (Rust + tree-sitter/Lua C code instrumented); thorough adds valgrind memcheck.
"""
import os
import re
import subprocess

from .. import gen, langs, run, soup
from .common import (Case, HELD, VIOLATED, INCONCLUSIVE, TERM, files_text, h, lua_script, rng)

ID = "C04"
LEVEL = "exploration"
BUILDS = {"quick": ["rel", "dbg", "asan"], "thorough": ["rel", "dbg", "asan"]}
OPTIONAL_BUILDS = ["asan"]
BUDGET_S = {"quick": 600, "thorough": 3600}
RULE = ("Per registered suffix: token soups over that language's comment delimiters, tag fragments, quotes, brackets, "
        "line terminators and unusual Unicode; byte-level mutations (re-validated as UTF-8) of generated well-formed "
        "files and of the repository's own sources; 64 KB repetitions; git-produced diffs between two such versions, also under quoted / "
        "non-UTF-8 file names; well-formed files whose blocks carry every rule attribute with ordinary and malformed values over odd "
        "content lines (NaN, infinities, overflowing numbers, Unicode digits, 5000-character lines). "
        "Each input is one process in scan, list or diff mode under the release, debug-assertion and ASan builds "
        "(RLIMIT_CPU decides hangs). A case is one (input, mode, build); non-trivial = the input contains a comment "
        "delimiter of its language or a '<'; distinct = hash of (suffix, bytes, mode, build).")
ASSUMPTIONS = [
    "inputs are UTF-8 without NUL and at most ~64 KB (the property's quantifier)",
    "leak and uninitialised-value reports are not counted (a CLI exits without teardown)",
    "a hang is a CPU-time verdict: RLIMIT_CPU 10 s, confirmed alone with 120 s; wall-clock timeouts are inconclusive",
]

PANIC_RE = re.compile(r"panicked at ([^\n:]+):(\d+):\d+:\n([^\n]*)")
ASAN_RE = re.compile(r"ERROR: AddressSanitizer: ([A-Za-z0-9_-]+)")
FRAME_RE = re.compile(r"#\d+ 0x[0-9a-f]+ in (\S+)")
VALGRIND_ERR_RE = re.compile(r"== (Invalid (?:read|write|free)[^\n]*|Jump to the invalid address[^\n]*|Mismatched free[^\n]*)\n==\d+==\s+(?:at|by) 0x[0-9A-Fa-f]+: (\S+)")

_SEEDS_CACHE = {}
_MINIMIZED = set()


def plan(tier, seed):
    jobs = []
    q = tier == "quick"
    for suffix in langs.ALL_SUFFIXES:
        jobs.append({"k": "soup", "suffix": suffix, "seed": seed, "n": 300 if q else 6000, "flavour": "rel", "part": 0})
        jobs.append({"k": "mut", "suffix": suffix, "seed": seed, "n": 150 if q else 3000, "flavour": "rel", "part": 0})
        jobs.append({"k": "soup", "suffix": suffix, "seed": seed, "n": 60 if q else 1500, "flavour": "dbg", "part": 1})
        jobs.append({"k": "mut", "suffix": suffix, "seed": seed, "n": 30 if q else 800, "flavour": "dbg", "part": 1})
        jobs.append({"k": "soup", "suffix": suffix, "seed": seed, "n": 50 if q else 1500, "flavour": "asan", "part": 2})
        jobs.append({"k": "mut", "suffix": suffix, "seed": seed, "n": 25 if q else 800, "flavour": "asan", "part": 2})
        jobs.append({"k": "diff", "suffix": suffix, "seed": seed, "n": 25 if q else 400, "flavour": "rel", "part": 3})
        jobs.append({"k": "big", "suffix": suffix, "seed": seed, "n": 3 if q else 30, "flavour": "rel", "part": 4})
    # well-formed files whose blocks carry every rule attribute with ordinary, odd and malformed values over odd content lines
    # (NaN / infinities / overflowing numbers / Unicode digits / very long lines): validators must report or refuse, never crash
    for suffix in ("py", "js", "md"):
        jobs.append({"k": "rules", "suffix": suffix, "seed": seed, "n": 260 if q else 6000, "flavour": "rel", "part": 6})
        jobs.append({"k": "rules", "suffix": suffix, "seed": seed, "n": 90 if q else 1500, "flavour": "dbg", "part": 7})
    if not q:
        # split the big jobs so that 16 workers stay busy
        split = []
        for j in jobs:
            if j["n"] > 500:
                for p in range(0, j["n"], 500):
                    split.append(dict(j, n=min(500, j["n"] - p), off=p))
            else:
                split.append(j)
        jobs = split
        for suffix in langs.ALL_SUFFIXES:
            jobs.append({"k": "valgrind", "suffix": suffix, "seed": seed, "n": 12, "flavour": "rel", "part": 5})
        # coverage-guided input generation (libFuzzer + ASan, in process); every artifact is re-judged at the CLI boundary
        jobs.insert(0, {"k": "libfuzzer", "suffix": "rs", "seed": seed, "flavour": "rel", "seconds": 420, "forks": 6})
    return jobs


def signature(res):
    err = res.err_text()
    if res.cls == "panic":
        m = PANIC_RE.search(err)
        if m:
            msg = re.sub(r"`[^`]*`?", "`..`", m.group(3))
            msg = re.sub(r"\d+", "N", msg)[:70]
            return "panic@%s:%s" % (os.path.basename(m.group(1)), msg)
        return "panic@?"
    if res.cls == "asan":
        m = ASAN_RE.search(err)
        kind = m.group(1) if m else "?"
        frame = "?"
        for fm in FRAME_RE.finditer(err):
            fn = fm.group(1)
            if fn.startswith("__asan") or fn.startswith("__interceptor") or fn.startswith("__sanitizer"):
                continue
            frame = fn
            break
        return "asan:%s@%s" % (kind, frame[:60])
    if res.cls in ("signal", "abort"):
        # a failed C assertion names its function and condition: that, not the bare signal number, identifies the defect
        m = re.search(r": ([A-Za-z_0-9]+): Assertion `([^']{1,80})' failed", err)
        if m:
            return "assert@%s:%s" % (m.group(1), m.group(2))
    if res.cls == "signal":
        return "signal:%d" % (-res.rc)
    return res.cls


def _is_bad(res):
    return res.cls in ("panic", "signal", "abort", "asan", "tsan", "cpu-limit", "usage") or res.cls.startswith("exit-")


def _env(flavour, mode):
    env = {}
    if mode != "diff":
        env.update(TERM)
    if flavour == "asan":
        env["ASAN_OPTIONS"] = "detect_leaks=0:abort_on_error=0:halt_on_error=1"
    return env


def execute(ctx, flavour, suffix, data, mode, diff=None, name=None, cpu=10):
    name = name or langs.file_name_for(suffix, "s")
    root = run.make_repo({name: data})
    try:
        args = ["list"] if mode == "list" else []
        stdin = diff if mode == "diff" else None
        return run.run(ctx.bins[flavour], args, root, stdin=stdin, env=_env(flavour, mode), cpu_limit=cpu)
    finally:
        run.rm(root)


def _minimize(ctx, flavour, suffix, data, mode, sig, budget=120):
    """Line-wise then character-wise reduction keeping the same outcome signature."""
    text = data.decode("utf-8")
    calls = [0]

    def same(t):
        if calls[0] >= budget:
            return False
        calls[0] += 1
        r = execute(ctx, flavour, suffix, t.encode("utf-8"), mode)
        return _is_bad(r) and signature(r) == sig

    def ddmin(items, join):
        n = 2
        while len(items) >= 2 and calls[0] < budget:
            chunk = max(1, len(items) // n)
            reduced = False
            for i in range(0, len(items), chunk):
                cand = items[:i] + items[i + chunk:]
                if cand and same(join(cand)):
                    items = cand
                    n = max(n - 1, 2)
                    reduced = True
                    break
            if not reduced:
                if chunk == 1:
                    break
                n = min(n * 2, len(items))
        return items

    lines = ddmin(text.splitlines(True), "".join)
    text = "".join(lines)
    if len(text) <= 400:
        chars = ddmin(list(text), "".join)
        text = "".join(chars)
    return text.encode("utf-8")


def judge(ctx, flavour, suffix, data, mode, res, desc, diff=None):
    lang = langs.SUFFIX_LANG[suffix]
    key = h([suffix, data.decode("utf-8", "replace"), mode, flavour, bool(diff)])
    nontrivial = (b"<" in data) or any(f.open.encode() in data for f in langs.LANGS[lang]["forms"])
    sets = {"suffix_mode_build": ["%s/%s/%s" % (suffix, mode, flavour)], "outcome": ["%s/%s" % (flavour, res.cls)],
            "suffix": [suffix]}
    counters = {"runs_" + flavour: 1, "mode_" + mode: 1}
    if res.cls == "wall-timeout":
        return Case(INCONCLUSIVE, key=key, summary="wall-clock timeout (%s, %s, %s)" % (suffix, mode, flavour), evals=1)
    if res.cls == "cpu-limit":
        # confirm alone with a generous CPU budget before calling it a loop
        again = execute(ctx, flavour, suffix, data, mode, diff=diff, cpu=120)
        if again.cls != "cpu-limit":
            return Case(INCONCLUSIVE, key=key, evals=2,
                        summary="CPU limit hit once (%.1fs) but not when re-run alone (%s)" % (res.cpu, again.cls))
        res = again
    if _is_bad(res):
        sig = signature(res)
        small = data
        if diff is None and res.cls != "cpu-limit" and (flavour, sig) not in _MINIMIZED:
            _MINIMIZED.add((flavour, sig))
            try:
                small = _minimize(ctx, flavour, suffix, data, mode, sig)
            except Exception:
                small = data
        fam = lang if res.cls in ("asan", "signal", "cpu-limit") else ""
        fullsig = "C04/%s%s" % (sig, ("/" + fam) if fam else "")
        wit = {"suffix": suffix, "mode": mode, "flavour": flavour, "input": data.decode("utf-8", "replace")[:3000],
               "minimized": small.decode("utf-8", "replace")[:600], "observed": res.brief(2500), "desc": desc}
        if diff is not None:
            wit["diff"] = diff.decode("utf-8", "replace")[:3000]
        return Case(VIOLATED, key=key, nontrivial=nontrivial, sig=fullsig, witness=wit, sets=sets, counters=counters,
                    summary="%s on %s input in %s mode (%s build); minimized input %r; stderr: %s" % (
                        res.cls, suffix, mode, flavour, small.decode("utf-8", "replace")[:160], res.err_text()[:300]))
    sample = None
    if nontrivial and len(data) < 300:
        sample = {"suffix": suffix, "mode": mode, "build": flavour, "input": data.decode("utf-8", "replace"),
                  "exit": res.rc, "stderr": res.err_text()[:160]}
    return Case(HELD, key=key, nontrivial=nontrivial, sets=sets, counters=counters, sample=sample)


def _seed_files(suffix, seed):
    """Well-formed files to mutate: generated ones plus the repository's own sources with that suffix."""
    k = (suffix, seed)
    if k in _SEEDS_CACHE:
        return _SEEDS_CACHE[k]
    lang = langs.SUFFIX_LANG[suffix]
    out = []
    for i in range(12):
        r = rng("c04seed", seed, suffix, i)
        g = gen.gen_file(r, lang, gen.Opts(multibyte=i % 2 == 0, eol="\r\n" if i % 4 == 3 else "\n", foreign=True))
        out.append(g.data)
    from ..build import REPO
    extra = []
    for base in ("src", "src/language_parsers", "src/validators", "tests/testdata", "."):
        d = os.path.join(REPO, base)
        if not os.path.isdir(d):
            continue
        for fn in sorted(os.listdir(d)):
            if fn.endswith("." + suffix) or fn == suffix:
                p = os.path.join(d, fn)
                try:
                    data = open(p, "rb").read()
                    data.decode("utf-8")
                except Exception:
                    continue
                if len(data) <= 60000:
                    extra.append(data)
    out += extra[:8]
    _SEEDS_CACHE[k] = out
    return out


RULE_VALUES = {
    "keep-sorted": ["asc", "desc", "", None, "ASC", "up"],
    "keep-sorted-format": ["numeric", "numeric", "lexicographic", "NUMERIC", "x", ""],
    "keep-sorted-pattern": [r"(?P<value>\S+)", r"\d*", "(", r"(?P<value>\d+)?", "[0-9]+$"],
    "keep-unique": [None, "", r"(?P<value>\w+)", "(", r"\S*"],
    "line-pattern": [r"\d+", "(", "", r"^\S+$", "[a-", r"(a|b)*c"],
    "line-count": ["<3", ">=0", "==2", "<18446744073709551616", "<<3", "", "> 1", "<-1", "==9223372036854775808"],
    "affects": [":x", "s.py:x", "nope", "", ":", "a:b:c", ":x,:y"],
    "severity": ["warning", "info", "hint", "ERROR", "bogus", ""],
    "check-lua-pattern": [r"(?P<value>\d+)", "(", ""],
    "check-ai": ["must be fine", ""],
    "check-ai-pattern": [r"\w+", "("],
    "name": ["x", "y", "é", ""],
}
RULE_LINES = ["nan", "NaN", "-nan", "inf", "-inf", "infinity", "1e999", "-1e999", "-0", "0", "0x10", "1_000", "\uff19", "\u0661\u0662", "1e-400", "", " ",
              "a", "b", "\u00e9", "9" * 400, "+5", ".5", "5.", "1e", "--1", "1", "2", "10", "2.0", "1e1", "id: nan", "x" * 5000, "\u3000", "a\tb", "(", "[a-", "\\"]


RULE_NUMERIC = ["nan", "NaN", "-nan", "inf", "-inf", "infinity", "+inf", "1e999", "-1e999", "-0", "0", "1e-400", "+5", ".5", "5.", "1", "2", "10", "2.0", "1e1",
                "  3", "4  ", "", "-0.0", "1e308", "1.7976931348623157e308", "4.9e-324", "0.1", "00", "007"]


def _rules_file(r, suffix, script):
    o, c = {"py": ("# ", ""), "js": ("// ", ""), "md": ("<!-- ", " -->")}[suffix]
    out = []
    for bi in range(r.randint(1, 5)):
        attrs = []
        for nm in r.sample(sorted(RULE_VALUES), r.randint(1, 4)):
            attrs.append((nm, r.choice(RULE_VALUES[nm])))
        if r.random() < 0.2:
            # (also scripts that recurse through C callbacks until Lua stops them: a script error, never a crash of the process)
            attrs.append(("check-lua", r.choice([script, "missing.lua", "", lua_script("fail/cstack.lua"), lua_script("fail/cstack.lua")])))
        names = [k for k, _ in attrs]
        numeric = False
        if "keep-sorted-format" in names or r.random() < 0.15:
            # a well-formed numeric block: the odd values are then *compared* instead of being refused
            attrs = [(k, v) for k, v in attrs if not k.startswith("keep-sorted")] + [("keep-sorted", r.choice(["asc", "desc", ""])),
                                                                                  ("keep-sorted-format", "numeric")]
            numeric = r.random() < 0.8
        body = " ".join(k if v is None else '%s="%s"' % (k, v) for k, v in attrs)
        if suffix == "md":
            out.append("")
        out.append("%s<block %s>%s" % (o, body, c))
        if suffix == "md":
            out.append("")
        for _ in range(r.choice([0, 1, 2, 2, 3, 6])):
            out.append(r.choice(RULE_NUMERIC if numeric else RULE_LINES))
            if suffix == "md":
                out.append("")
        out.append("%s</block>%s" % (o, c))
    return "\n".join(out) + "\n"


def _git_diff(r, name, a, b):
    """A diff produced by git between two versions of one file (None if git finds none)."""
    root = run.make_repo({}, real_git=True)
    try:
        variant = r.randrange(4)
        ctxw = r.choice([0, 0, 1, 3, 10])
        if variant == 0 or not a:
            run.write_files(root, {name: b})
            run.git(root, "add", "-A")
            return run.git(root, "diff", "--cached", "-U%d" % ctxw, check=False)
        run.write_files(root, {name: a})
        run.git(root, "add", "-A")
        run.git(root, "commit", "-q", "--allow-empty", "-m", "a")
        run.write_files(root, {name: b})
        if variant == 1:
            return run.git(root, "diff", "-U%d" % ctxw, check=False)
        run.git(root, "add", "-A")
        if variant == 2:
            return run.git(root, "diff", "--cached", "-U%d" % ctxw, check=False)
        run.git(root, "commit", "-q", "--allow-empty", "-m", "b")
        return run.git(root, "diff", "-U%d" % ctxw, "HEAD~1", "HEAD", check=False)
    finally:
        run.rm(root)


def run_job(job, ctx):
    flavour = job["flavour"]
    suffix = job["suffix"]
    lang = langs.SUFFIX_LANG[suffix]
    if flavour not in ctx.bins:
        return [Case(INCONCLUSIVE, key=h(job), summary="build %s unavailable" % flavour, evals=0)]
    out = []
    off = job.get("off", 0)
    k = job["k"]
    if k in ("soup", "mut", "big"):
        seeds = _seed_files(suffix, job["seed"]) if k == "mut" else None
        for i in range(off, off + job["n"]):
            r = rng("c04", k, job["seed"], suffix, job["part"], i)
            if k == "soup":
                data = soup.soup(r, lang).encode("utf-8")
            elif k == "mut":
                data = soup.mutate(r, r.choice(seeds))
            else:
                unit = soup.soup(r, lang, 12) or "x"
                data = (unit * (60000 // max(1, len(unit.encode("utf-8"))) + 1)).encode("utf-8")[:64000]
                data = data.decode("utf-8", "ignore").encode("utf-8")
            mode = "list" if i % 3 == 0 else "scan"
            # 64 KB repetitions may legitimately cost seconds (quadratic error recovery inside
            # tree-sitter was measured at 10-18 s CPU); only >120 s CPU counts as "loops".
            res = execute(ctx, flavour, suffix, data, mode, cpu=120 if k == "big" else 10)
            c = judge(ctx, flavour, suffix, data, mode, res, dict(job, i=i))
            if res.cpu > 5:
                c.counters["slow_over_5s_cpu"] = 1
                c.sets["slow_inputs"] = ["%s %.0fs %r" % (suffix, res.cpu, data[:40].decode("utf-8", "replace"))]
            out.append(c)
    elif k == "diff":
        seeds = _seed_files(suffix, job["seed"])
        name = langs.file_name_for(suffix, "s")
        for i in range(off, off + job["n"]):
            r = rng("c04d", job["seed"], suffix, i)
            a = r.choice([b"", r.choice(seeds), soup.soup(r, lang).encode("utf-8")])
            b = r.choice([soup.mutate(r, a or r.choice(seeds)), soup.soup(r, lang).encode("utf-8")])
            if r.random() < 0.3:
                b = a + b
            # unusual but legal file names: git quotes the path (C-style escapes, octal for bytes >= 0x80)
            nm = name
            if i % 4 == 1:
                ext = name.rsplit("/", 1)[-1].split(".", 1)[1] if "." in name else name
                nm = r.choice(["d\u00e9j\u00e0 vu.%s" % ext, "sp ace/q\"uote.%s" % ext, "tab\there.%s" % ext, b"caf\xe9/latin1-\xff." + ext.encode(),
                               "\u65e5\u672c/\U0001F600.%s" % ext, "back\\slash.%s" % ext])
            diff = _git_diff(r, nm, a, b)
            if not diff:
                continue
            res = execute(ctx, flavour, suffix, b, "diff", diff=diff, name=nm)
            c = judge(ctx, flavour, suffix, b, "diff", res, dict(job, i=i, name=repr(nm)), diff=diff)
            if nm is not name:
                c.sets["diff_path"] = ["quoted-non-utf8" if isinstance(nm, bytes) else "quoted" if b'"' in diff.split(b"\n@@", 1)[0] else "plain"]
            out.append(c)
    elif k == "rules":
        script = lua_script("nil.lua")
        for i in range(off, off + job["n"]):
            r = rng("c04r", job["seed"], suffix, job["part"], i)
            data = _rules_file(r, suffix, script).encode("utf-8")
            mode = "diff" if i % 3 == 0 else "scan"
            diff = None
            name = langs.file_name_for(suffix, "s")
            if mode == "diff":
                body = data.decode("utf-8").split("\n")
                if body and body[-1] == "":
                    body.pop()
                diff = ("diff --git a/%s b/%s\nnew file mode 100644\n--- /dev/null\n+++ b/%s\n@@ -0,0 +1,%d @@\n%s" % (
                    name, name, name, len(body), "".join("+" + l + "\n" for l in body))).encode("utf-8")
            res = execute(ctx, flavour, suffix, data, mode, diff=diff)
            c = judge(ctx, flavour, suffix, data, mode, res, dict(job, i=i), diff=diff)
            c.counters["rules_files"] = 1
            out.append(c)
    elif k == "valgrind":
        out += _valgrind(job, ctx)
    elif k == "libfuzzer":
        out += _libfuzzer(job, ctx)
    elif k == "witness":
        data = job["input"].encode("utf-8")
        res = execute(ctx, flavour, suffix, data, job["mode"])
        out.append(judge(ctx, flavour, suffix, data, job["mode"], res, job))
    return out


def _valgrind(job, ctx):
    """memcheck on the release binary: invalid reads/writes/frees count; leaks and uninitialised values do not."""
    suffix = job["suffix"]
    lang = langs.SUFFIX_LANG[suffix]
    out = []
    for i in range(job["n"]):
        r = rng("c04vg", job["seed"], suffix, i)
        data = soup.soup(r, lang).encode("utf-8") if i % 2 else soup.mutate(r, r.choice(_seed_files(suffix, job["seed"])))
        name = langs.file_name_for(suffix, "s")
        root = run.make_repo({name: data})
        try:
            res = run.run(ctx.bins["rel"], [], root, stdin=None, env=dict(TERM), cpu_limit=300, wall_limit=600,
                          prefix=["valgrind", "--tool=memcheck", "--error-exitcode=0", "--leak-check=no",
                                  "--undef-value-errors=no", "-q"])
        finally:
            run.rm(root)
        key = h([suffix, data.decode("utf-8", "replace"), "valgrind"])
        m = VALGRIND_ERR_RE.search(res.err_text())
        sets = {"suffix_mode_build": ["%s/scan/valgrind" % suffix], "suffix": [suffix]}
        if res.cls == "wall-timeout":
            out.append(Case(INCONCLUSIVE, key=key, summary="valgrind wall timeout", evals=1))
        elif m:
            out.append(Case(VIOLATED, key=key, nontrivial=True, sig="C04/memcheck:%s@%s/%s" % (m.group(1)[:40], m.group(2)[:60], lang),
                            summary="memcheck: %s" % res.err_text()[:600], sets=sets,
                            witness={"suffix": suffix, "input": data.decode("utf-8", "replace")[:3000],
                                     "observed": res.brief(3000), "desc": dict(job, i=i)}))
        elif res.rc not in (0, 1):
            out.append(Case(VIOLATED, key=key, nontrivial=True, sig="C04/valgrind-exit-%s/%s" % (res.rc, lang),
                            summary="under valgrind: exit %s: %s" % (res.rc, res.err_text()[:400]), sets=sets,
                            witness={"suffix": suffix, "input": data.decode("utf-8", "replace")[:3000],
                                     "observed": res.brief(3000), "desc": dict(job, i=i)}))
        else:
            out.append(Case(HELD, key=key, nontrivial=b"<" in data, sets=sets, counters={"runs_valgrind": 1}))
    return out


FUZZ_SUFFIXES = ["Makefile", "bash", "c", "cc", "cpp", "cs", "css", "d.ts", "go", "go.mod", "go.sum", "go.work", "h", "htm", "html", "java",
                 "js", "jsx", "kt", "kts", "makefile", "markdown", "md", "mk", "php", "phtml", "py", "pyi", "rb", "rs", "sh", "sql", "swift",
                 "toml", "ts", "tsx", "xml", "yaml", "yml"]


def _libfuzzer(job, ctx):
    """libFuzzer + ASan as a coverage-guided *generator*: the in-process target (fuzz/fuzz_targets/parse_any.rs) parses the
    input under every registered suffix or as a diff; crash artifacts are replayed through the real binary (release and
    ASan builds) and only what reproduces there is a violation. Build failure or unreproduced artifacts are inconclusive."""
    import glob
    import shutil
    import tempfile
    from .. import build as bld
    key = h(job)
    proj = os.path.join(bld.CACHE, "fuzzproj")
    src = os.path.join(bld.VERIF, "fuzz")
    os.makedirs(os.path.join(proj, "fuzz_targets"), exist_ok=True)
    shutil.copy(os.path.join(src, "fuzz_targets", "parse_any.rs"), os.path.join(proj, "fuzz_targets", "parse_any.rs"))
    with open(os.path.join(proj, "Cargo.toml"), "w") as f:
        f.write(open(os.path.join(src, "Cargo.toml.in")).read().replace("@REPO@", bld.REPO))
    shutil.copy(os.path.join(bld.REPO, "Cargo.lock"), os.path.join(proj, "Cargo.lock"))
    env = dict(os.environ, CARGO_NET_OFFLINE="true", CC="clang-14", CXX="clang++-14",
               CFLAGS="-fsanitize=address,fuzzer-no-link -fno-omit-frame-pointer")
    tdir = os.path.join(bld.CACHE, "t-fuzz")
    b = subprocess.run(["cargo", "+nightly", "fuzz", "build", "--fuzz-dir", proj, "--target-dir", tdir, "parse_any"],
                       env=env, stdout=subprocess.PIPE, stderr=subprocess.STDOUT, text=True)
    exe = os.path.join(tdir, bld.TARGET_TRIPLE, "release", "parse_any")
    if b.returncode != 0 or not os.path.exists(exe):
        return [Case(INCONCLUSIVE, key=key, summary="libFuzzer target did not build: %s" % b.stdout[-400:], evals=0)]
    work = tempfile.mkdtemp(prefix="fuzz.", dir=run.scratch_root())
    corpus = os.path.join(work, "corpus")
    arts = os.path.join(work, "artifacts") + "/"
    os.makedirs(corpus)
    os.makedirs(arts)
    r = rng("c04fuzz", job["seed"])
    for i, suffix in enumerate(FUZZ_SUFFIXES):
        for j in range(4):
            lang = langs.SUFFIX_LANG[suffix]
            data = soup.soup(r, lang, 30).encode("utf-8") if j else _seed_files(suffix, job["seed"])[0][:3000]
            with open(os.path.join(corpus, "s%d_%d" % (i, j)), "wb") as f:
                f.write(bytes([i | (0x80 if j % 2 else 0)]) + data)
    p = subprocess.run([exe, corpus, "-max_total_time=%d" % job["seconds"], "-timeout=20", "-max_len=8192", "-fork=%d" % job["forks"],
                        "-ignore_crashes=1", "-ignore_timeouts=1", "-ignore_ooms=1", "-detect_leaks=0", "-rss_limit_mb=4096",
                        "-artifact_prefix=" + arts, "-print_final_stats=1"],
                       env=dict(os.environ, ASAN_OPTIONS="detect_leaks=0"), stdout=subprocess.PIPE, stderr=subprocess.STDOUT, text=True,
                       timeout=job["seconds"] + 600)
    m = re.findall(r"#(\d+): cov: (\d+) ft: (\d+) corp: (\d+)", p.stdout)
    execs, cov, ft, corp = (int(x) for x in m[-1]) if m else (0, 0, 0, 0)
    out = []
    crashes = sorted(glob.glob(arts + "crash-*"))[:200]
    confirmed = 0
    for art in crashes:
        raw = open(art, "rb").read()
        if not raw:
            continue
        sel = raw[0] % (len(FUZZ_SUFFIXES) + 1)
        try:
            text = raw[1:].decode("utf-8")
        except UnicodeDecodeError:
            continue
        if sel == len(FUZZ_SUFFIXES):
            # a diff: replay in diff mode next to an empty tree
            for fl in ("rel", "asan"):
                if fl not in ctx.bins:
                    continue
                root = run.make_repo({})
                try:
                    res = run.run(ctx.bins[fl], [], root, stdin=text.encode("utf-8"), env=_env(fl, "diff"))
                finally:
                    run.rm(root)
                if _is_bad(res):
                    confirmed += 1
                    out.append(Case(VIOLATED, key=h([art]), nontrivial=True, sig="C04/%s/diff-text" % signature(res),
                                    summary="libFuzzer-found diff text crashes the CLI (%s build): %s" % (fl, res.err_text()[:300]),
                                    witness={"diff": text[:3000], "observed": res.brief(2500)}))
                    break
            continue
        suffix = FUZZ_SUFFIXES[sel]
        data = text.encode("utf-8")
        for fl in ("rel", "asan"):
            if fl not in ctx.bins:
                continue
            res = execute(ctx, fl, suffix, data, "scan")
            c = judge(ctx, fl, suffix, data, "scan", res, dict(job, artifact=os.path.basename(art)))
            if c.status == VIOLATED:
                confirmed += 1
                out.append(c)
                break
    unconfirmed = len(crashes) - confirmed
    timeouts = len(glob.glob(arts + "timeout-*")) + len(glob.glob(arts + "oom-*"))
    shutil.rmtree(work, ignore_errors=True)
    if execs < 1000:
        out.append(Case(INCONCLUSIVE, key=key, summary="libFuzzer ran only %d executions: %s" % (execs, p.stdout[-300:]), evals=0))
    else:
        out.append(Case(HELD, key=key, nontrivial=True, evals=0,
                        counters={"libfuzzer_executions": execs, "libfuzzer_coverage_edges": cov, "libfuzzer_features": ft,
                                  "libfuzzer_corpus_units": corp, "libfuzzer_crash_artifacts": len(crashes),
                                  "libfuzzer_artifacts_confirmed_at_cli": confirmed, "libfuzzer_artifacts_not_reproduced_at_cli": unconfirmed,
                                  "libfuzzer_timeout_or_oom_artifacts": timeouts},
                        sets={"suffix_mode_build": ["*/inprocess/libfuzzer-asan"]}))
    return out


def finalize(agg, tier, coverage):
    problems = []
    if len(agg["sets"].get("suffix", ())) < 39:
        problems.append("only %d of 39 suffixes exercised" % len(agg["sets"].get("suffix", ())))
    return problems


LEVEL_TEXT = ("Sanitizer-style exploration: tens of thousands (quick) to millions (thorough) of hostile inputs per run, each "
              "executed by the real binary in scan, list and diff mode; outcome classes other than exit 0/1 (panic, abort, "
              "signal, CPU-limit, ASan report, memcheck invalid access) are violations, minimised to a small witness. Three "
              "builds: release, dev profile (overflow checks, debug assertions) and ASan with the tree-sitter parsers, "
              "external scanners and Lua compiled with clang -fsanitize=address. Says nothing about inputs not generated.")
LEVEL_NOTE = ("Trusted: RLIMIT_CPU accounting, ASan/memcheck detection limits (red zones miss intra-object overflows). "
              "Inputs >64 KB and non-UTF-8 are outside the property.")
TECHNIQUE = "runtime monitoring with sanitizers: outcome-class oracle over token-soup/mutation workloads under release, debug-assert, ASan (+valgrind) builds"
