"""C08 - line-pattern reports a block iff some line fails the regex (reference model, bounded-exhaustive)."""
import itertools

from .. import models, vbatch
from .common import h, rng

ID = "C08"
LEVEL = "exploration"
BUILDS = ["rel"]
BUDGET_S = {"quick": 600, "thorough": 3000}
MAXLEN = {"quick": 4, "thorough": 5}
EXHAUSTIVE = {"quick": "all line sequences of length <=4 over the alphabet x the pattern family",
              "thorough": "all line sequences of length <=5 over the alphabet x the pattern family"}
ALPHA = ["abc", "ABC", "  abc", "abc  ", "\tabc\t", "", "   ", "abc1", "1abc", "ab", "abc def", "x",
         # Unicode White_Space (what "trimming" and "blank" mean for a Rust str): ideographic space, no-break space
         "\u3000abc", "abc\u00a0", "\u3000"]
PATTERNS = [r"^[a-z]+$", r"[a-z]+", r"^abc", r"abc$", r"^\s", r"\s$", r"^[a-z]{3}$", r"^(abc|x)$", r"\d", r"^.*$", r"^$", r"c d",
            " ",      # a regex made of white space only is still a regex: it matches the lines with an inner blank (lines are trimmed first)
            # legal patterns that compile to a large automaton (bounded repetition over Unicode classes)
            ]
# legal patterns that compile to a large automaton (bounded repetition over Unicode classes); blockwatch compiles the pattern
# once per block, so these run on a few hundred blocks instead of the full enumeration
BIG_PATTERNS = [r"^\w{1,40}$", r"^[\w.-]{3,48}$", r"^[^\W\d]{2,60}$"]
RULE = ("Bounded-exhaustive: every sequence of up to MAXLEN lines over a 15-symbol alphabet (matching, non-matching, "
        "indented, trailing-blank, blank, Unicode-whitespace-padded and partially matching lines) x 12 anchored/unanchored patterns (+3 patterns that compile to large automata, on short sequences) (including "
        "patterns that only an untrimmed line could match, `^\\s` and `\\s$`); plus random long blocks with Unicode text "
        "and CRLF. Judged by a reference model on presence, count and the designated first failing line (trimmed "
        "extent). A case is one block; non-trivial = >=2 non-blank lines; distinct = hash of (attributes, lines).")
ASSUMPTIONS = ["simple layout only (tags in their own line comments)",
               "regexes limited to constructs with identical semantics in Python re and Rust regex"]


def plan(tier, seed):
    jobs = []
    maxlen = MAXLEN[tier]
    for pi in range(len(PATTERNS)):
        jobs.append({"k": "enum", "p": pi, "len": (0, min(3, maxlen)), "first": None})
        for L in range(4, maxlen + 1):
            for first in range(len(ALPHA)):
                jobs.append({"k": "enum", "p": pi, "len": (L, L), "first": first})
    for i in range(16 if tier == "quick" else 400):
        jobs.append({"k": "rand", "i": i, "seed": seed})
    jobs.append({"k": "nested", "seed": seed})
    jobs.append({"k": "huge", "seed": seed})
    for bi in range(len(BIG_PATTERNS)):
        jobs.append({"k": "big", "p": bi})
    return jobs


def model(b):
    r = models.line_pattern(b.content, dict(b.attrs)["line-pattern"])
    if r is None:
        return None
    return {"line_idx": r[0], "key": r[1], "c1": r[2], "c2": r[3]}


def _sets(b, exp):
    return {"pattern": [dict(b.attrs)["line-pattern"]], "verdict": ["violation" if exp else "all-match"]}


ATTRS_NESTED = [[("line-pattern", "^[a-z#]")], [("line-pattern", "^# <block|^[a-z]+$")], [("line-pattern", "^[a-z]+$")]]


def run_job(job, ctx):
    acc = vbatch.Acc()
    if job["k"] == "enum":
        lo, hi = job["len"]
        pat = PATTERNS[job["p"]]
        blocks = []

        def flush():
            if blocks:
                for c in vbatch.run_batch(ctx, blocks, "hash", "line-pattern", model, sig_prefix="C08", sets_fn=_sets):
                    acc.add(c)
                # the same sequences with the first line on the start tag's line and the last line on the end tag's line
                # (no empty leading piece, no trailing line terminator), LF and CRLF
                for eol in (("\n", "\r\n") if ctx.tier == "thorough" else ("\r\n",)):
                    inl = []
                    for b in blocks:
                        ls = b.lines
                        if not ls or any(set(l) & set("/*\u3000\u00a0") for l in ls):
                            continue
                        inl.append(vbatch.BBlock(b.attrs, ls[1:-1] if len(ls) >= 2 else [], inline_first=" " + ls[0],
                                                 inline_last=ls[-1] if len(ls) >= 2 else None))
                    if inl:
                        for c in vbatch.run_batch(ctx, inl, "c", "line-pattern", model, eol=eol, sig_prefix="C08", sets_fn=_sets):
                            acc.add(c)
                del blocks[:]

        for L in range(lo, hi + 1):
            if job["first"] is None:
                seqs = itertools.product(ALPHA, repeat=L)
            else:
                seqs = ((ALPHA[job["first"]],) + rest for rest in itertools.product(ALPHA, repeat=L - 1))
            for seq in seqs:
                blocks.append(vbatch.BBlock([("line-pattern", pat)], list(seq)))
                if len(blocks) >= 2500:
                    flush()
        flush()
    elif job["k"] == "big":
        pat = BIG_PATTERNS[job["p"]]
        blocks = [vbatch.BBlock([("line-pattern", pat)], list(seq)) for L in (1, 2) for seq in itertools.product(ALPHA[:8], repeat=L)]
        for c in vbatch.run_batch(ctx, blocks, "hash", "line-pattern", model, sig_prefix="C08", sets_fn=_sets):
            acc.add(c)
    elif job["k"] == "huge":
        # 70,000 matching lines with one offender beyond line 65,536
        lines = ["k%06d" % i for i in range(70000)]
        bad = list(lines)
        bad[69993] = "K-oops"
        blocks = [vbatch.BBlock([("line-pattern", "^k[0-9]+$")], ["k1", "k2"]) for _ in range(100)]
        blocks += [vbatch.BBlock([("line-pattern", "^k[0-9]+$")], bad), vbatch.BBlock([("line-pattern", "^k[0-9]+$")], lines)]
        for c in vbatch.run_batch(ctx, blocks, "hash", "line-pattern", model, sig_prefix="C08", prefix="huge", sets_fn=_sets):
            acc.add(c)
    elif job["k"] == "nested":
        # nested blocks: the inner blocks' tag lines are ordinary lines (keys) of the outer block, and each inner block is
        # judged on its own content
        import itertools as _it
        blocks = []
        k = 0
        for attrs in ATTRS_NESTED:
            for pre, inner, post in _it.product([[], ["a"], ["z"], ["b", "a"]], [["m"], ["a", "a"], []], [[], ["a"], ["zz"]]):
                lines = list(pre) + ['# <block name="in' + str(k) + '">'] + list(inner) + ["# </block>"] + list(post)
                k += 1
                blocks.append(vbatch.BBlock(list(attrs), lines))
        for c in vbatch.run_batch(ctx, blocks, "hash", "line-pattern", model, sig_prefix="C08", prefix="outer", sets_fn=_sets):
            acc.add(c)
    else:
        r = rng("c08", job["seed"], job["i"])
        blocks = [_random_block(r) for _ in range(40)]
        _second_validator(blocks)
        eol = "\r\n" if job["i"] % 3 == 0 else "\n"
        for c in vbatch.run_batch(ctx, blocks, "cm" if job["i"] % 4 == 2 else "hash", "line-pattern", model, eol=eol, bom=(job["i"] % 3 == 1), ignore_codes=("line-count",), sig_prefix="C08", sets_fn=_sets):
            acc.add(c)
    return acc.to_cases(h(job))


RPATS = [r"^[a-z]+: \d+$", r"^\w+$", r"^[^ ]+$", r"^(é|e)", r"日本", r"^[A-Z]", r"\d{2,}$", r"^[a-z0-9_]+ = .+$"]
RLINES = ["key: 1", "key: 12", "Key: 3", "word", "two words", "épée", "e", "日本語", "x = 1", "x_y = a b", "X", "abc12", "key:1", "k: 007"]


def _second_validator(blocks):
    """Every fifth block also carries a violated rule of another synchronous validator: two validators report on the same file."""
    for j, b in enumerate(blocks):
        if j % 5 == 2 and any(l.strip() for l in b.lines):      # not the first block: the main validator is detected (and joined) first
            b.attrs = list(b.attrs) + [("line-count", "<1")]


def _random_block(r):
    pat = r.choice(RPATS)
    n = r.choice([2, 3, 5, 8, 20, 60, 200, 400])
    import re as _re
    good = [l for l in RLINES if _re.search(pat, l)] or ["x"]
    lines = []
    for _ in range(n):
        l = r.choice(good) if r.random() < 0.985 else r.choice(RLINES)
        odd = r.random() < 0.3
        lines.append(r.choice(["", "", "  ", "\t"] + (["\x0c", "\u2028", "\r", "\u0085 "] if odd else [])) + l + r.choice(["", "", " "] + (["\r", " \r", "\x0b", "\u3000"] if odd else [])))
        if r.random() < 0.1:
            lines.append(r.choice(["", "   ", "\r", "\x0c", "\u2028", "\u0085", " \u3000 "]))
    return vbatch.BBlock([("line-pattern", pat)], lines)


LEVEL_TEXT = ("Bounded-exhaustive comparison with an executable reference model (all line sequences up to length 4 quick / 5 "
              "thorough x 12 patterns), judged on presence, count and the designated first failing line; random "
              "long/Unicode/CRLF blocks beyond the bound.")
LEVEL_NOTE = "Trusted: reference model in bwverif/models.py; Python re == Rust regex on the fixed pattern family."
TECHNIQUE = "runtime monitoring: reference-model oracle over bounded-exhaustive batches of blocks executed by the real binary"
