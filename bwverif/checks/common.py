"""Helpers shared by the per-property checks."""
import json
import os
import shutil

from .. import run
from ..core import Case, HELD, VIOLATED, INCONCLUSIVE, h, rng, subseed

LUA_DIR = os.path.join(os.path.dirname(os.path.dirname(os.path.abspath(__file__))), "lua")
TERM = {"BLOCKWATCH_TERMINAL_MODE": "1"}

_LUA_CACHE = {}


def lua_script(name):
    """Copy a probe script into this worker's scratch area (short path without '--' or quotes)."""
    if name not in _LUA_CACHE or not os.path.exists(_LUA_CACHE[name]):
        dst_dir = os.path.join(run.scratch_root(), "lua")
        os.makedirs(dst_dir, exist_ok=True)
        dst = os.path.join(dst_dir, name.replace("/", "_"))
        shutil.copyfile(os.path.join(LUA_DIR, name), dst)
        _LUA_CACHE[name] = dst
    return _LUA_CACHE[name]


def bad_outcome(res):
    """True when the execution ended in a class no property tolerates (crash, sanitizer, hang)."""
    return res.cls in ("panic", "signal", "abort", "asan", "tsan", "cpu-limit") or res.cls.startswith("exit-")


def endpoint_flake(res):
    """The harness's own fake endpoint did not accept a connection in time (loaded machine): nothing learnt about blockwatch."""
    return b"Connection timed out (os error 110)" in res.err and b"127.0.0.1" in res.err


def inconclusive_outcome(res):
    return res.cls == "wall-timeout"


def diag_list(res):
    """Flatten stderr diagnostics to a list of (file, diagnostic dict)."""
    d = res.diagnostics()
    if d is None:
        return None
    out = []
    for f, lst in d.items():
        if not isinstance(lst, list):
            return None
        for x in lst:
            out.append((f, x))
    return out


def files_text(files, limit=4000):
    out = {}
    for k, v in files.items():
        if isinstance(v, bytes):
            v = v.decode("utf-8", "replace")
        out[k] = v[:limit]
    return out


# ---- ThreadSanitizer -----------------------------------------------------------------------------
import glob as _glob
import re as _re

# TSan only understands synchronisation it intercepts. tokio hands a freshly initialised ScheduledIo to its I/O
# driver thread through the kernel (epoll_ctl -> epoll_wait token), which TSan cannot see: every run that opens a
# socket reports "races" inside tokio::runtime::io between RegistrationSet::allocate and Driver::turn /
# ScheduledIo::wake. Those are not attributable to blockwatch and are filtered by the function named in the
# report's SUMMARY line; everything else counts.
_TSAN_IGNORE = _re.compile(r"tokio::runtime::io::|<mio::|mio::")
_TSAN_SUMMARY = _re.compile(r"SUMMARY: ThreadSanitizer: ([a-z -]+?) (?:\S+ )?in (.+)")


def tsan_env(env, logdir):
    """Reports go to files (so stderr stays the program's own) and do not change the exit status."""
    os.makedirs(logdir, exist_ok=True)
    env["TSAN_OPTIONS"] = "halt_on_error=0:exitcode=0:log_path=%s" % os.path.join(logdir, "tsan")
    return env


def tsan_collect(logdir):
    """-> (attributable report signatures, number of filtered tokio-io reports)."""
    sigs, ignored = [], 0
    for f in _glob.glob(os.path.join(logdir, "tsan.*")):
        try:
            text = open(f, errors="replace").read()
        except OSError:
            continue
        for m in _TSAN_SUMMARY.finditer(text):
            fn = m.group(2).strip()
            if _TSAN_IGNORE.search(fn):
                ignored += 1
            else:
                sigs.append("%s in %s" % (m.group(1).strip(), _re.sub(r"\s*\(\.llvm\.\d+\)", "", fn)[:120]))
    shutil.rmtree(logdir, ignore_errors=True)
    return sigs, ignored
