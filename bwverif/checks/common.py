"""Helpers shared by the per-property checks."""
import json
import os
import shutil

from .. import run
from ..core import Case, HELD, VIOLATED, INCONCLUSIVE, h, rng, subseed

LUA_DIR = os.path.join(os.path.dirname(os.path.dirname(os.path.abspath(__file__))), "lua")
TERM = {"BLOCKWATCH_TERMINAL_MODE": "1"}

_LUA_CACHE = {}


def lua_script(name):
    """Copy a probe script into this worker's scratch area (short path without '--' or quotes)."""
    if name not in _LUA_CACHE or not os.path.exists(_LUA_CACHE[name]):
        dst_dir = os.path.join(run.scratch_root(), "lua")
        os.makedirs(dst_dir, exist_ok=True)
        dst = os.path.join(dst_dir, name.replace("/", "_"))
        shutil.copyfile(os.path.join(LUA_DIR, name), dst)
        _LUA_CACHE[name] = dst
    return _LUA_CACHE[name]


def bad_outcome(res):
    """True when the execution ended in a class no property tolerates (crash, sanitizer, hang)."""
    return res.cls in ("panic", "signal", "abort", "asan", "tsan", "cpu-limit") or res.cls.startswith("exit-")


def inconclusive_outcome(res):
    return res.cls == "wall-timeout"


def diag_list(res):
    """Flatten stderr diagnostics to a list of (file, diagnostic dict)."""
    d = res.diagnostics()
    if d is None:
        return None
    out = []
    for f, lst in d.items():
        if not isinstance(lst, list):
            return None
        for x in lst:
            out.append((f, x))
    return out


def files_text(files, limit=4000):
    out = {}
    for k, v in files.items():
        if isinstance(v, bytes):
            v = v.decode("utf-8", "replace")
        out[k] = v[:limit]
    return out
