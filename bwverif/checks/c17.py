"""C17 - the default Lua mode is a sandbox: no file, OS or module access.

(i) graph enumeration from inside Lua: everything reachable from _G, the string metatable and the
metatable of every reached value must be inside the mode's allow-list (written from the Lua 5.4
manual); (ii) a battery of concrete escape attempts against a nonce file, a marker path, a secret
environment variable, a planted C module and libm.
"""
import glob
import os
import subprocess

from .. import run
from .common import (Case, HELD, VIOLATED, INCONCLUSIVE, TERM, bad_outcome, diag_list, h, lua_script)

ID = "C17"
LEVEL = "exploration"
BUILDS = {"quick": ["rel"], "thorough": ["rel", "asan"]}
OPTIONAL_BUILDS = ["asan"]
EXHAUSTIVE = {"quick": "the reachable value graph of the Lua environment in each of 10 BLOCKWATCH_LUA_MODE settings",
              "thorough": "the reachable value graph of the Lua environment in each of 10 BLOCKWATCH_LUA_MODE settings (release and ASan builds)"}
RULE = ("For each BLOCKWATCH_LUA_MODE in {unset, sandboxed, safe, unsafe, '', SAFE, Unsafe, ' safe', garbage, sandbox}: a probe "
        "script run by the real binary enumerates (once while its top-level chunk runs and once inside validate()) the transitive closure of values reachable from _G, the string "
        "metatable and getmetatable of every reached value (tables, functions, userdata, threads) and the set of "
        "reachable paths is compared with the mode's allow-list; a battery of ~38 concrete escape attempts (io, os, "
        "require, package.loadlib, C module on cpath, dofile, loadfile, load of text and bytecode, debug, metatable and "
        "coroutine variants) is judged against a nonce file, marker files, a secret env var. A case is one reachable "
        "node or one escape attempt in one mode; non-trivial = function or library node / attempt touching io, os, "
        "package, debug or file loading; distinct = (mode, path) or (mode, attempt).")
ASSUMPTIONS = [
    "Lua has no ambient authority beyond reachable values, so the enumeration decides the property for every script, modulo upvalues of opaque C closures (the stock library)",
    "allow-lists are the Lua 5.4 reference manual's library contents",
    "native-module loading is decided behaviourally (package.loadlib / require of a planted .so must fail in safe and succeed in unsafe), not by name",
]

BASE = {"assert", "collectgarbage", "error", "getmetatable", "ipairs", "load", "next", "pairs", "pcall", "print", "rawequal",
        "rawget", "rawlen", "rawset", "select", "setmetatable", "tonumber", "tostring", "type", "warn", "xpcall", "_G",
        "_VERSION", "validate"}
LIBS = {
    "coroutine": {"close", "create", "isyieldable", "resume", "running", "status", "wrap", "yield"},
    "table": {"concat", "insert", "move", "pack", "remove", "sort", "unpack"},
    "string": {"byte", "char", "dump", "find", "format", "gmatch", "gsub", "len", "lower", "match", "pack", "packsize", "rep",
               "reverse", "sub", "unpack", "upper"},
    "utf8": {"char", "charpattern", "codepoint", "codes", "len", "offset"},
    "math": {"abs", "ceil", "cos", "deg", "exp", "floor", "fmod", "huge", "log", "max", "maxinteger", "min", "mininteger", "modf",
             "pi", "rad", "random", "randomseed", "sin", "sqrt", "tan", "tointeger", "type", "ult", "acos", "asin", "atan",
             # LUA_COMPAT_MATHLIB (the vendored Lua 5.4 is built with 5.3 compatibility): still pure math
             "cosh", "sinh", "tanh", "pow", "frexp", "ldexp", "log10", "atan2"},
}
STRINGMT = {"__index", "__add", "__sub", "__mul", "__div", "__mod", "__pow", "__unm", "__idiv"}
SAFE_EXTRA_GLOBALS = {"io", "os", "package", "require", "dofile", "loadfile"}
UNSAFE_EXTRA_GLOBALS = {"debug"}
FORBIDDEN_DEFAULT = {"io", "os", "package", "debug", "require", "dofile", "loadfile"}

MODES = [("unset", None), ("sandboxed", "sandboxed"), ("safe", "safe"), ("unsafe", "unsafe"), ("empty", ""), ("SAFE", "SAFE"),
         ("Unsafe", "Unsafe"), ("spacesafe", " safe"), ("garbage", "garbage"), ("sandbox", "sandbox")]


def mode_class(value):
    if value == "safe":
        return "safe"
    if value == "unsafe":
        return "unsafe"
    return "sandboxed"


def plan(tier, seed):
    jobs = []
    flavours = ["rel"] + (["asan"] if tier == "thorough" else [])
    for fl in flavours:
        for name, value in MODES:
            jobs.append({"k": "probe", "mode": name, "flavour": fl})
            jobs.append({"k": "battery", "mode": name, "flavour": fl})
            jobs.append({"k": "probe", "mode": name, "flavour": fl, "blocks": 64, "workers": "2"})
            jobs.append({"k": "probe", "mode": name, "flavour": fl, "shebang": True})
            if tier == "thorough":
                for nb, w in ((8, "1"), (256, "1"), (256, "16"), (1000, "4")):
                    jobs.append({"k": "probe", "mode": name, "flavour": fl, "blocks": nb, "workers": w})
    return jobs


def allowed_path(path, cls):
    """Is this reachable path inside the allow-list of the mode class? (path like `_G.string.rep`)"""
    segs = path.split(".")
    if segs[0] == "<stringmt>":
        return len(segs) == 1 or (len(segs) == 2 and segs[1] in STRINGMT)
    if segs[0] != "_G":
        return False
    if len(segs) == 1:
        return True
    g = segs[1]
    if g in BASE:
        return len(segs) == 2
    if g in LIBS:
        return len(segs) == 2 or (len(segs) == 3 and segs[2] in LIBS[g])
    if cls in ("safe", "unsafe") and g in SAFE_EXTRA_GLOBALS:
        return True      # io/os/package sub-trees (files, metatables, loaded, searchers) are allowed wholesale
    if cls == "unsafe" and g in UNSAFE_EXTRA_GLOBALS:
        return True
    return False


def _env_for(value, flavour):
    env = dict(TERM)
    if value is not None:
        env["BLOCKWATCH_LUA_MODE"] = value
    env["BWVERIF_SECRET_ENV"] = "ENVSECRET-7391"
    if flavour == "asan":
        env["ASAN_OPTIONS"] = "detect_leaks=0"
    return env


def _lua_message(res):
    dl = diag_list(res)
    if dl is None:
        return None
    for f, d in dl:
        if d.get("code") == "check-lua":
            return (d.get("data") or {}).get("lua_error")
    return None


def run_job(job, ctx):
    fl = job["flavour"]
    if fl not in ctx.bins:
        return [Case(INCONCLUSIVE, key=h(job), summary="build %s unavailable" % fl, evals=0)]
    value = dict(MODES)[job["mode"]]
    cls = mode_class(value)
    if job["k"] == "probe":
        return _probe(ctx, job, value, cls, fl)
    return _battery(ctx, job, value, cls, fl)


def _probe(ctx, job, value, cls, fl):
    script = lua_script("probe.lua")
    if job.get("shebang"):
        # the same probe behind a `#!` first line: the script is either refused (a syntax error is a hard error) or it runs in
        # exactly the environment every other script gets
        sb = os.path.join(run.scratch_root(), "probe_shebang.lua")
        if not os.path.exists(sb):
            with open(sb + ".tmp%d" % os.getpid(), "w") as f:
                f.write("#!/usr/bin/env lua\n" + open(script).read())
            os.replace(sb + ".tmp%d" % os.getpid(), sb)
        script = sb
    nblocks = job.get("blocks", 1)
    text = "".join('# <block name="p%d" check-lua="%s">\nx = %d\n# </block>\n' % (i, script, i) for i in range(nblocks))
    root = run.make_repo({"f.py": text})
    env = _env_for(value, fl)
    if job.get("workers"):
        env["TOKIO_WORKER_THREADS"] = job["workers"]
    try:
        res = run.run(ctx.bins[fl], [], root, stdin=None, env=env, cpu_limit=120)
    finally:
        run.rm(root)
    if nblocks > 1:
        # every block of a crowded run must see the same environment as a single block does
        dl = diag_list(res) or []
        msgs = [(d.get("data") or {}).get("lua_error", "") for _f, d in dl if d.get("code") == "check-lua"]
        if len(msgs) != nblocks:
            return [Case(INCONCLUSIVE, key=h(job), summary="crowded probe run returned %d of %d reports: %s" % (len(msgs), nblocks, res.err_text()[:200]))]
        distinct = sorted(set(msgs))
        out = []
        for i, m in enumerate(distinct):
            bad_paths = []
            phase = ""
            for line in m.split("\n")[1:]:
                if line == "@@LOADTIME":
                    phase = "@load:"
                    continue
                path, _, typ = line.rpartition("=")
                if not typ.startswith("alias:") and not allowed_path(path, cls):
                    bad_paths.append(phase + path)
            key = h(["crowd", job["mode"], fl, i])
            sets = {"mode": [job["mode"]], "crowded_run_distinct_environments": [str(len(distinct))]}
            if bad_paths:
                out.append(Case(VIOLATED, key=key, nontrivial=True, sets=sets, sig="C17/reachable-in-crowded-run/%s/%s" % (cls, bad_paths[0]),
                                summary="mode %r, %d blocks in one run: %d block(s) see %s outside the %s allow-list" % (
                                    value, nblocks, msgs.count(m), bad_paths[:4], cls),
                                witness={"mode": job["mode"], "env_value": value, "blocks": nblocks, "paths": bad_paths[:20]}))
            else:
                out.append(Case(HELD, key=key, nontrivial=True, sets=sets, counters={"crowded_probe_blocks": msgs.count(m)}))
        return out
    msg = _lua_message(res)
    wit = {"mode": job["mode"], "env_value": value, "flavour": fl}
    if job.get("shebang") and msg is None and res.rc != 0 and not bad_outcome(res) and res.diagnostics() is None:
        return [Case(HELD, key=h(job), nontrivial=True, evals=1, sets={"mode": [job["mode"]], "shebang_script": ["refused"]},
                     counters={"shebang_scripts_refused": 1})]
    if msg is None or not msg.startswith("PROBE\n"):
        return [Case(VIOLATED if bad_outcome(res) else INCONCLUSIVE, key=h(job), nontrivial=True,
                     sig="C17/probe-run-%s" % res.cls, summary="probe did not report (%s): %s %s" % (res.cls, res.err_text()[:300], (msg or "")[:200]),
                     witness=dict(wit, observed=res.brief(2000)))]
    out = []
    nodes = {}
    phase = ""
    for line in msg.split("\n")[1:]:
        if line == "@@LOADTIME":
            phase = "@load:"      # the same graph observed while the top-level chunk ran
            continue
        path, _, typ = line.rpartition("=")
        nodes[phase + path] = typ
    edges = len(nodes)
    present = {p.split(".")[1] for p in nodes if p.startswith("_G.") and len(p.split(".")) >= 2}
    for fullpath, typ in sorted(nodes.items()):
        if typ.startswith("alias:"):
            continue    # second path to a value that is judged under its first path
        at_load = fullpath.startswith("@load:")
        path = fullpath[6:] if at_load else fullpath
        key = h(["probe", job["mode"], fl, fullpath])
        nontrivial = typ == "function" or path.count(".") == 1
        sets = {"mode": [job["mode"]], "mode_class_globals": ["%s:%s" % (cls, path.split(".")[1])] if path.startswith("_G.") and path.count(".") == 1 else []}
        if allowed_path(path, cls):
            out.append(Case(HELD, key=key, nontrivial=nontrivial, evals=0, sets=sets,
                            counters={"reachable_nodes": 1, "reachable_functions": 1 if typ == "function" else 0}))
        else:
            out.append(Case(VIOLATED, key=key, nontrivial=True, evals=0, sets=sets,
                            sig="C17/reachable%s/%s/%s" % ("-at-load-time" if at_load else "", cls, path),
                            summary="BLOCKWATCH_LUA_MODE=%r (%s build): %s (%s) is reachable from the script%s but not in the %s allow-list" % (
                                value, fl, path, typ, " while its top-level chunk runs" if at_load else "", cls),
                            witness=dict(wit, path=path, type=typ, all_top_level=sorted(present))))
    # the mode must also *add* what the statement says it adds
    need = set()
    if cls in ("safe", "unsafe"):
        need |= {"io", "os", "package"}
    if cls == "unsafe":
        need |= {"debug"}
    for g in sorted(need - present):
        out.append(Case(VIOLATED, key=h(["probe-missing", job["mode"], fl, g]), nontrivial=True, evals=0,
                        sig="C17/missing/%s/%s" % (cls, g),
                        summary="mode %r should provide `%s` but it is not reachable" % (value, g), witness=wit))
    if out:
        out[0].evals = 1
        out[0].counters = dict(out[0].counters or {}, graph_edges_listed=edges, probes_run=1)
        out[0].sample = {"mode": job["mode"], "value": value, "build": fl, "reachable_nodes": len(nodes),
                         "top_level": sorted(present)}
    return out


_CMOD = {}


def _cmod_dir():
    """A directory with a native module (vmod.so), a Lua module (lmod.lua)."""
    d = os.path.join(run.scratch_root(), "cmod")
    if d in _CMOD:
        return d
    os.makedirs(d, exist_ok=True)
    src = os.path.join(d, "vmod.c")
    with open(src, "w") as f:
        f.write("int luaopen_vmod(void *L) { (void)L; return 0; }\nint luaopen_vmod_sub(void *L) { (void)L; return 0; }\n")
    p = subprocess.run(["gcc", "-shared", "-fPIC", "-o", os.path.join(d, "vmod.so"), src], capture_output=True)
    with open(os.path.join(d, "lmod.lua"), "w") as f:
        f.write('return "LMOD-LOADED"\n')
    _CMOD[d] = p.returncode == 0
    return d


def _libm():
    for pat in ("/lib/x86_64-linux-gnu/libm.so.6", "/usr/lib/x86_64-linux-gnu/libm.so.6", "/lib64/libm.so.6"):
        if os.path.exists(pat):
            return pat
    c = glob.glob("/lib/*/libm.so.6") + glob.glob("/usr/lib/*/libm.so.6")
    return c[0] if c else "/nonexistent/libm.so.6"


BOOL_FALSE_DEFAULT = {"loadtime_package", "load_text_io", "load_text_os", "load_bytecode", "load_env_escape", "rawget_io", "rawget_os",
                      "rawget_debug", "rawget_package", "stringmt_foreign"}
MUST_BLOCK_DEFAULT = {"io_open_read", "io_open_write", "io_lines", "io_popen", "os_execute", "os_getenv", "os_remove", "os_rename",
                      "os_tmpname", "os_time", "require_io", "require_os", "package_loaded_io", "package_loadlib",
                      "package_loadlib_sym", "require_cmod", "require_cmod_dotted", "require_luamod", "dofile", "loadfile", "debug_getregistry",
                      "debug_getinfo", "debug_via_registry_io", "coroutine_io", "coroutine_dofile", "pcall_require", "searchers",
                      "loadtime_dofile", "loadtime_loadfile", "loadtime_io", "loadtime_os", "loadtime_require", "loadtime_debug",
                      "load_ret_dofile", "load_ret_loadfile", "load_ret_G_dofile", "load_ret_require", "load_ret_io_open", "load_ret_os_getenv",
                      "load_ret_debug"}
NATIVE = {"package_loadlib", "package_loadlib_sym", "require_cmod", "require_cmod_dotted"}
DEBUG = {"debug_getregistry", "debug_getinfo", "debug_via_registry_io", "pcall_require", "loadtime_debug", "load_ret_debug"}


def _battery(ctx, job, value, cls, fl):
    script = lua_script("battery.lua")
    work = run.fresh_dir("bat")
    nonce = "NONCE-%s" % h([job, os.getpid()])
    nonce_path = os.path.join(work, "secret.lua")
    with open(nonce_path, "w") as f:
        f.write('return "%s"\n' % nonce)
    marker = os.path.join(work, "marker")
    cdir = _cmod_dir()
    attrs = 'name="p" check-lua="%s" nonce-path="%s" marker-path="%s" cmod-dir="%s" libm="%s"' % (script, nonce_path, marker, cdir, _libm())
    root = run.make_repo({"f.py": "# <block %s>\nx = 1\n# </block>\n" % attrs})
    try:
        res = run.run(ctx.bins[fl], [], root, stdin=None, env=_env_for(value, fl), cpu_limit=60)
    finally:
        run.rm(root)
    made = sorted(os.path.basename(p) for p in glob.glob(marker + "*"))
    run.rm(work)
    msg = _lua_message(res)
    wit = {"mode": job["mode"], "env_value": value, "flavour": fl}
    if msg is None or not msg.startswith("BATTERY\n"):
        return [Case(VIOLATED if bad_outcome(res) else INCONCLUSIVE, key=h(job), nontrivial=True,
                     sig="C17/battery-run-%s" % res.cls, summary="battery did not report (%s): %s" % (res.cls, res.err_text()[:300]),
                     witness=dict(wit, observed=res.brief(2000)))]
    results = {}
    for line in msg.split("\n")[1:]:
        name, _, rest = line.partition("=")
        results[name] = rest
    out = []
    have_cmod = _CMOD.get(cdir, False)

    def verdict(name, rest):
        ok = rest.startswith("ok:")
        val = rest[3:] if ok else rest
        leaked = nonce in rest or "ENVSECRET-7391" in rest or "LMOD-LOADED" in rest
        if cls == "sandboxed":
            if leaked:
                return "leaked a secret"
            if name in MUST_BLOCK_DEFAULT and ok:
                return "succeeded (%s) but must be impossible in the default mode" % val[:60]
            if name in BOOL_FALSE_DEFAULT and ok and val.split(",")[0] not in ("false", "nil"):
                return "reports access (%s) in the default mode" % val[:60]
            return None
        if name in NATIVE:
            if cls == "safe" and ok:
                return "native module loading succeeded in safe mode (%s)" % val[:60]
            if cls == "unsafe" and not ok and (name == "package_loadlib" or have_cmod):
                return "native module loading failed in unsafe mode (%s)" % val[:80]
            return None
        if name in DEBUG or name == "rawget_debug":
            has = ok and val.split(",")[0] not in ("false", "nil")
            if cls == "safe" and has:
                return "debug facility available in safe mode (%s)" % val[:60]
            if cls == "unsafe" and not has:
                return "debug facility missing in unsafe mode (%s)" % val[:80]
            return None
        if name in ("io_open_read", "os_getenv", "require_luamod", "dofile", "loadfile", "rawget_io", "rawget_os", "rawget_package",
                    "loadtime_dofile", "loadtime_io", "loadtime_os"):
            has = ok and val.split(",")[0] not in ("false", "nil")
            if not has:
                return "%s should work in %s mode but did not (%s)" % (name, cls, val[:80])
        return None

    for name, rest in sorted(results.items()):
        v = verdict(name, rest)
        key = h(["battery", job["mode"], fl, name])
        nontrivial = name not in ("print_exists", "stringmt_index", "os_time")
        sets = {"mode": [job["mode"]], "attempt_outcome": ["%s/%s/%s" % (cls, name, "ok" if rest.startswith("ok:") else "blocked")]}
        if v:
            out.append(Case(VIOLATED, key=key, nontrivial=True, evals=0, sets=sets, sig="C17/escape/%s/%s" % (cls, name),
                            summary="BLOCKWATCH_LUA_MODE=%r (%s build): attempt %s %s" % (value, fl, name, v),
                            witness=dict(wit, attempt=name, result=rest[:300])))
        else:
            out.append(Case(HELD, key=key, nontrivial=nontrivial, evals=0, sets=sets, counters={"escape_attempts": 1}))
    if cls == "sandboxed" and made:
        out.append(Case(VIOLATED, key=h(["battery-marker", job["mode"], fl]), nontrivial=True, evals=0,
                        sig="C17/escape/sandboxed/marker-file", summary="marker files created from the default mode: %s" % made,
                        witness=dict(wit, made=made)))
    if len(results) < 30:
        out.append(Case(INCONCLUSIVE, key=h(["battery-short", job]), summary="battery reported only %d attempts" % len(results), evals=0))
    if out:
        out[0].evals = 1
        out[0].sample = {"mode": job["mode"], "value": value, "build": fl,
                         "results": {k: v[:60] for k, v in sorted(results.items())[:12]}}
    return out


def finalize(agg, tier, coverage):
    problems = []
    if len(agg["sets"].get("mode", ())) < len(MODES):
        problems.append("only %d of %d modes exercised" % (len(agg["sets"].get("mode", ())), len(MODES)))
    return problems


LEVEL_TEXT = ("Exhaustive over the reachable value graph of the script environment for each of ten BLOCKWATCH_LUA_MODE settings "
              "(every reachable table/function/userdata/thread path is compared with an allow-list written from the Lua 5.4 "
              "manual), plus a fixed battery of concrete escape attempts judged by side effects (nonce, marker files, secret "
              "environment variable, planted native module). Because Lua has no ambient authority, the enumeration covers "
              "every script up to the internals of stock C functions.")
LEVEL_NOTE = ("Trusted: the probe script's traversal (pairs/next/getmetatable from inside the sandbox), the manual-derived "
              "allow-lists, gcc for the planted module. Not covered: behaviour of individual stock functions (e.g. what "
              "`load` accepts), upvalues of C closures.")
TECHNIQUE = "runtime monitoring: in-sandbox reachability enumeration vs allow-list + behavioural escape battery"
