"""C12 - unbalanced block tags are a hard error, never a silent skip."""
from .. import gen, langs, run
from .common import (Case, HELD, VIOLATED, INCONCLUSIVE, TERM, bad_outcome, files_text, h, rng)

ID = "C12"
LEVEL = "exploration"
BUILDS = ["rel"]
BUDGET_S = {"quick": 600, "thorough": 2400}
RULE = ("Well-nested files generated for every registered suffix (C03's generator) are damaged in exactly one tag: a start or "
        "end tag deleted, duplicated or neutralised (`<block`->`<xblock`, `</block>`->`</xblock>`) at any nesting depth. "
        "The damaged file is placed alone or among 1-5 healthy files (other languages, sub-directories) and examined in scan "
        "mode, `list` mode and diff mode (whole-file diff naming it; also together with a positional glob that does not match it); committed files damaged by deleting one tag's whole line, seen through the real `git diff -U0/-U1/-U3`. Expected: non-zero exit, no panic/signal, stderr "
        "names the damaged file's root-relative path; the undamaged file passes (control). A case is one (file, damage, "
        "mode); non-trivial = depth >=2 or >=3 blocks; distinct = hash of (damaged bytes, mode, neighbours).")
ASSUMPTIONS = ["one damage changes the tag count by one, so the file cannot re-balance by accident",
               "the language table of bwverif/langs.py (validated by C03)"]
DAMAGES = ["delete-start", "delete-end", "dup-start", "dup-end", "neutral-start", "neutral-end"]


def plan(tier, seed):
    n = 8 if tier == "quick" else 120
    # Swift is left to C03/C04 (recorded findings: its grammar's scanner state is a zero-size allocation and it sometimes
    # swallows later comments), so that a grammar hiccup is not reported as a silent skip of an unbalanced file
    jobs = [{"suffix": s, "i": i, "seed": seed} for s in langs.ALL_SUFFIXES if s != "swift" for i in range(n)]
    for s in langs.ALL_SUFFIXES:
        if s != "swift" and any(f.kind == "line" and f.family != "md" for f in langs.LANGS[langs.SUFFIX_LANG[s]]["forms"]):
            jobs.append({"k": "glued", "suffix": s, "seed": seed})
    for s in langs.ALL_SUFFIXES:
        if s != "swift":
            for i in range(2 if tier == "quick" else 30):
                jobs.append({"k": "gitdiff", "suffix": s, "i": i, "seed": seed})
    return jobs


def glued_job(job, ctx):
    """`</block><block>`: an end tag and a bare start tag glued together at the very end of a line comment; the block
    opened by that bare tag is then left unclosed (or closed: control)."""
    from .. import fb as fbm
    suffix = job["suffix"]
    lang = langs.LANGS[langs.SUFFIX_LANG[suffix]]
    form = [f for f in lang["forms"] if f.kind == "line" and f.family != "md"][0]
    out = []
    for variant in ("</block><block>", "</block> <block>", "<block name=\"z\"><block>", "UNI:<block \u043a\u043b\u044e\u0447>",
                    "UNI:<block name=\u00e9t\u00e9 data-\u540d>"):
        for closed in (True, False):
            lines = list(lang["prologue"])
            if variant.startswith("UNI:"):
                # a lone start tag whose attribute name / unquoted value is non-ASCII, closed or never closed
                lines += ["%s %s" % (form.open, variant[4:]), lang["code"][0], "%s </block>" % form.open]
            else:
                lines += ["%s <block name=\"a\">" % form.open, lang["code"][0], "%s %s" % (form.open, variant), lang["code"][-1]]
                lines += ["%s </block>" % form.open]                      # closes the bare block (or `a` when the bare tag is lost)
                if variant.startswith("<block name"):
                    lines += ["%s </block>" % form.open, "%s </block>" % form.open]     # z and a
            if not closed:
                lines = lines[:-1]
            lines += list(lang["epilogue"])
            data = ("\n".join(lines) + "\n").encode()
            name = langs.file_name_for(suffix, "glued")
            for mode in ("scan", "list"):
                root = run.make_repo({name: data})
                try:
                    res = run.run(ctx.bin("rel"), ["list"] if mode == "list" else [], root, stdin=None, env=dict(TERM))
                finally:
                    run.rm(root)
                key = h([suffix, variant, closed, mode])
                sets = {"suffix": [suffix], "damage_mode": ["glued-%s/%s" % ("closed" if closed else "unclosed", mode)]}
                if closed:
                    ok = res.cls == "ok"
                    why = "a balanced file with glued tags was rejected: %s" % res.err_text()[:200]
                    sig = "C12/%s-control-rejected" % ("unicode-attribute" if variant.startswith("UNI:") else "glued")
                else:
                    ok = res.rc != 0 and not bad_outcome(res) and name in res.err_text()
                    why = "exit %s for a file whose glued bare start tag is never closed: %s" % (res.rc, res.err_text()[:200])
                    sig = "C12/silent-success/%s/%s" % ("unicode-attribute-tag" if variant.startswith("UNI:") else "glued-bare-start", mode)
                if ok:
                    out.append(Case(HELD, key=key, nontrivial=True, sets=sets, counters={"glued_runs": 1}))
                else:
                    out.append(Case(VIOLATED, key=key, nontrivial=True, sig=sig, summary=why, sets=sets,
                                    witness={"files": {name: data.decode()}, "mode": mode, "observed": res.brief(1000), "job": job}))
    return out


def damage(data, tag, kind):
    a, b = tag.off, tag.end_off
    src = data[a:b]
    if kind.startswith("delete"):
        return data[:a] + data[b:]
    if kind.startswith("dup"):
        return data[:a] + src + b" " + data[a:]
    if tag.kind == "start":
        return data[:a] + b"<xblock" + data[a + 6:]
    return data[:a] + src.replace(b"block", b"xblock") + data[b:]


def whole_file_diff(name, data):
    text = data.decode("utf-8", "replace")
    lines = text.split("\n")
    if lines and lines[-1] == "":
        lines.pop()
    body = "".join("+" + l + "\n" for l in lines)
    return ("diff --git a/%s b/%s\nnew file mode 100644\n--- /dev/null\n+++ b/%s\n@@ -0,0 +1,%d @@\n%s" % (name, name, name, len(lines), body)).encode("utf-8")


def gitdiff_job(job, ctx):
    """A committed well-nested file is damaged by deleting the whole line of one tag (or by adding a line with a stray tag); what
    blockwatch gets is the real `git diff -U0/-U1/-U3` of that change."""
    import re
    suffix = job["suffix"]
    lang_name = langs.SUFFIX_LANG[suffix]
    lang = langs.LANGS[lang_name]
    witness = job.get("witness")
    r = rng("c12g", job.get("seed", 0), suffix, job.get("i", 0))
    out = []
    for rep in range(1 if witness else 4):
        line_forms = [f.id for f in lang["forms"] if f.kind == "line"] or [f.id for f in lang["forms"]]
        g = gen.gen_file(r, lang_name, gen.Opts(max_depth=2, max_blocks=5, layouts=("own",), forms=line_forms[:1], decoys=False, prose=False,
                                               attrs_fn=lambda idx: [("name", "b%d" % idx)]))
        name = r.choice(["", "sub/", "a/b/"]) + langs.file_name_for(suffix, "gd")
        text = g.data.decode("utf-8")
        lines = text.split("\n")
        tags = [t for t in g.fb.tags if t.in_comment and t.comment.start_line == t.comment.end_line]
        if witness:
            name, lines = "pkg/w.py", ['# <block name="w">', "x = 1", "# </block>", "y = 2", ""]
            tag_lines = [1]
        else:
            tag_lines = sorted({t.line for t in tags})
        if not tag_lines:
            continue
        for ln in ([1] if witness else r.sample(tag_lines, min(3, len(tag_lines)))):
            if sum(1 for t in g.fb.tags if t.in_comment and t.line == ln) != 1 and not witness:
                continue          # two tags on that line: deleting it may keep the file balanced
            new_lines = lines[:ln - 1] + lines[ln:]
            ctxn = 0 if witness else r.choice([0, 0, 1, 3])
            root = run.make_repo({name: "\n".join(lines)}, real_git=True, commit=True)
            try:
                run.write_files(root, {name: "\n".join(new_lines)})
                diff = run.git(root, "diff", "-U%d" % ctxn)
                res = run.run(ctx.bin("rel"), r.choice([[], ["list"]]), root, stdin=diff, env={})
                scan = run.run(ctx.bin("rel"), ["list"], root, stdin=None, env=dict(TERM))
            finally:
                run.rm(root)
            key = h([suffix, "gitdiff", "\n".join(new_lines), ctxn])
            sets = {"suffix": [suffix], "damage_mode": ["delete-tag-line/git-diff-U%d" % ctxn], "tag_line": ["first" if ln == 1 else "later"]}
            if res.cls == "wall-timeout" or scan.cls == "wall-timeout":
                out.append(Case(INCONCLUSIVE, key=key, summary="wall timeout"))
                continue
            if scan.rc == 0:
                # the grammar did not give blockwatch the comments as written (generator hiccup): nothing to conclude about diff mode
                out.append(Case(INCONCLUSIVE, key=key, summary="damaged file %s passes a full scan; case skipped" % name))
                continue
            ok = res.rc != 0 and not bad_outcome(res) and name in res.err_text()
            if ok:
                out.append(Case(HELD, key=key, nontrivial=True, sets=sets, counters={"gitdiff_runs": 1}))
                continue
            emptied = bool(re.search(r"(?m)^@@ -\d+(,\d+)? \+0,0 @@", diff.decode("utf-8", "replace"))) and diff.count(b"\n@@ ") == 1
            if res.rc == 0 and emptied and not res.err.strip():
                sig = "C12/first-lines-deleted-U0"       # recorded finding: entry with a single `+0,0` hunk = deleted file
            else:
                sig = "C12/%s/delete-tag-line/git-diff" % ("silent-success" if res.rc == 0 else "crash-" + res.cls if bad_outcome(res) else "file-not-named")
            out.append(Case(VIOLATED, key=key, nontrivial=True, sig=sig, sets=sets,
                            summary="the tag line %d of %s was deleted (git diff -U%d): exit %s, stderr %s" % (ln, name, ctxn, res.rc, res.err_text()[:200]),
                            witness={"files": {name: "\n".join(new_lines)[:3000]}, "diff": diff.decode("utf-8", "replace")[:3000],
                                     "observed": res.brief(1500), "job": job}))
    return out


def run_job(job, ctx):
    if job.get("k") == "glued":
        return glued_job(job, ctx)
    if job.get("k") == "gitdiff":
        return gitdiff_job(job, ctx)
    suffix = job["suffix"]
    lang = langs.SUFFIX_LANG[suffix]
    r = rng("c12", job["seed"], suffix, job["i"])
    def attrs_fn(idx):
        a = [("name", "b%d" % idx)]
        if idx % 2:
            a.append((["ключ", "名前", "é", "data-ü"][idx % 4], None))     # bare attribute with a non-ASCII name: still a block tag
        return a

    g = gen.gen_file(r, lang, gen.Opts(max_depth=3, max_blocks=8, multibyte=r.random() < 0.3, eol=r.choice(["\n", "\n", "\r\n"]),
                                       attrs_fn=attrs_fn))
    name = r.choice(["", "sub/", "a/b/"]) + langs.file_name_for(suffix, "dmg")
    neighbours = {}
    for k in range(r.choice([0, 0, 1, 3, 5])):
        s2 = r.choice(langs.ALL_SUFFIXES)
        g2 = gen.gen_file(r, langs.SUFFIX_LANG[s2], gen.Opts(max_depth=2, max_blocks=4))
        neighbours["n%d/%s" % (k, langs.file_name_for(s2, "ok"))] = g2.data
    out = []
    nontrivial_base = g.meta["max_depth"] >= 2 or len(g.blocks) >= 3
    tags = [t for t in g.fb.tags if t.in_comment]
    # control: the undamaged file passes
    files = dict(neighbours)
    files[name] = g.data
    root = run.make_repo(files)
    try:
        ctrl = run.run(ctx.bin("rel"), ["list"], root, stdin=None, env=dict(TERM))
    finally:
        run.rm(root)
    if ctrl.cls != "ok":
        return [Case(INCONCLUSIVE, key=h([suffix, job["i"], "control"]), summary="control (undamaged) run failed: %s" % ctrl.err_text()[:200], evals=1)]
    picks = tags if len(tags) <= 6 else r.sample(tags, 6)
    for t in picks:
        for kind in DAMAGES:
            if (kind.endswith("start")) != (t.kind == "start"):
                continue
            bad = damage(g.data, t, kind)
            files = dict(neighbours)
            files[name] = bad
            mode = r.choice(["scan", "list", "diff", "diff-glob", "scan-symlink"])
            root = run.make_repo(files)
            try:
                if mode == "scan-symlink":
                    # the damaged file is a symbolic link to a regular file kept in a hidden directory (not walked itself)
                    import os
                    store = ".store/" + name.replace("/", "_")
                    run.write_files(root, {store: bad})
                    os.unlink(os.path.join(root, name))
                    os.symlink(os.path.relpath(os.path.join(root, store), os.path.dirname(os.path.join(root, name))), os.path.join(root, name))
                if mode == "diff-glob":
                    # the damaged file is named by the diff but matches none of the positional globs: still in scope
                    other = sorted(neighbours)[0] if neighbours else "nothing/**"
                    res = run.run(ctx.bin("rel"), r.choice([[], ["list"]]) + [other], root, stdin=whole_file_diff(name, bad), env={})
                elif mode == "diff":
                    res = run.run(ctx.bin("rel"), r.choice([[], ["list"]]), root, stdin=whole_file_diff(name, bad), env={})
                else:
                    res = run.run(ctx.bin("rel"), ["list"] if mode == "list" else [], root, stdin=None, env=dict(TERM))
            finally:
                run.rm(root)
            depth = 0
            for b in g.blocks:
                if b.start is t or b.end is t:
                    depth = b.depth
            key = h([suffix, bad.decode("utf-8", "replace"), mode, sorted(neighbours)])
            nontrivial = nontrivial_base
            sets = {"suffix": [suffix], "damage_mode": ["%s/%s" % (kind, mode)], "depth": [str(depth)],
                    "neighbours": [str(len(neighbours))]}
            err = res.err_text()
            problem = None
            if res.cls == "wall-timeout":
                out.append(Case(INCONCLUSIVE, key=key, summary="wall timeout"))
                continue
            if res.rc == 0:
                problem = ("silent-success", "exit 0 for a file whose tags do not balance (%s at depth %d)" % (kind, depth))
            elif bad_outcome(res):
                problem = ("crash-" + res.cls, "ended %s: %s" % (res.cls, err[:200]))
            elif name not in err:
                problem = ("file-not-named", "non-zero exit but stderr does not name %r: %s" % (name, err[:300]))
            if problem:
                out.append(Case(VIOLATED, key=key, nontrivial=nontrivial, sig="C12/%s/%s/%s" % (problem[0], kind, mode), sets=sets,
                                summary="%s [%s, %s mode, %d healthy neighbours]" % (problem[1], suffix, mode, len(neighbours)),
                                witness={"files": files_text(files, 2500), "damaged": name, "damage": kind, "mode": mode,
                                         "tag_line": t.line, "observed": res.brief(1500), "job": job}))
            else:
                out.append(Case(HELD, key=key, nontrivial=nontrivial, sets=sets, counters={"damaged_runs": 1},
                                sample={"suffix": suffix, "damage": kind, "mode": mode, "depth": depth, "exit": res.rc,
                                        "stderr": err[:200]} if nontrivial else None))
    return out


def finalize(agg, tier, coverage):
    if len(agg["sets"].get("suffix", ())) < 38:
        return ["only %d of 38 suffixes (all but swift) exercised" % len(agg["sets"].get("suffix", ()))]
    return []


LEVEL_TEXT = ("Sampling over generated well-nested files of all 39 suffixes with a systematic damage set (six single-tag damages on "
              "up to six tags per file, any depth) in scan, list and diff mode, alone or among healthy files; a control run of "
              "the undamaged tree guards against generator errors. Held on the executions observed.")
LEVEL_NOTE = "Trusted: C03's generator/language table; single damages cannot re-balance a file."
TECHNIQUE = "runtime monitoring: fault-injection on generated files (single-tag damage) with exit-status/stderr oracle"
