"""C01 - drift detection: a changed block forces its linked blocks to change.

Oracle: an independent interpreter of git's unified diff (bwverif.udiff) gives, per file, the change
groups with old-file and new-file line numbers; construction truth gives every block's tag-comment
extents in both states. A block is MUST-modified iff a group adds a new line or removes an old line
strictly between its tag comments; DON'T-CARE if not MUST and a group touches or adjoins its tag
lines; MUST-NOT otherwise. `affects` expectations follow from the MUST set.
"""
import itertools
import json
import os
import re

from .. import difflab, langs, run, udiff
from .common import (Case, HELD, VIOLATED, INCONCLUSIVE, bad_outcome, diag_list, files_text, h, rng)

ID = "C01"
LEVEL = "exploration"
BUILDS = ["rel"]
BUDGET_S = {"quick": 600, "thorough": 3000}
RULE = ("Pairs of repository states: 1-4 generated files (19 suffixes, nested and sibling blocks, one-line and multi-line tag "
        "comments, LF/CRLF), `affects` references of every shape (same-file, cross-file, comma lists with spaces, cycles, "
        "duplicate names, missing blocks and files); edit scripts of 1-12 line insertions, deletions, 1:1 and unequal "
        "replacements biased to block boundaries and to the top of the file (so later lines shift); renamed, added and "
        "deleted files; lines that render as `--- `/`+++ ` in a diff; real git produces the diff (-U0..-U10, worktree, "
        "--cached, commit-to-commit, -M). Observed: is_content_modified of every block (`list`, with and without `**`), the "
        "multiset of affects diagnostics and the exit status; then the missing targets are touched, the diff against the "
        "same base is taken again and the run must pass when every target exists. A case is one (state pair, git "
        "invocation); non-trivial = >=1 MUST and >=1 MUST-NOT block and (>=2 change groups or a line shift before a "
        "changed block); distinct = hash of (diff text, argv).")
ASSUMPTIONS = [
    "bwverif.udiff is checked on every case by re-applying its groups to the old file (must reproduce the new file)",
    "tag-comment lines are never edited here (C02 does that); Markdown and Kotlin are not used as hosts for line edits",
    "a defect model of the recorded known finding (pure deletions located at old-file line numbers) is used only to label a "
    "mismatch as that finding: the mismatch must be exactly what the model predicts and the file must contain a shifted pure deletion",
]

MUST, MUSTNOT, DC = "must", "must-not", "dont-care"
MSG_RE = re.compile(r"^Block (.+?):(\S+) at line (\d+) is modified, but (.+):(.*) is not$")


def plan(tier, seed):
    n = 400 if tier == "quick" else 6000
    return [{"i": i, "seed": seed, "n": 6} for i in range(n)]


# ------------------------------------------------------------------------------------------ generation
def make_states(r):
    nfiles = r.choice([1, 1, 2, 2, 3, 4])
    paths = []
    for fi in range(nfiles):
        suffix = r.choice(difflab.SAFE_SUFFIXES)
        d = r.choice(["", "", "src/", "a/", "b/", "docs/api/", "dir with space/"])
        paths.append((d + "f%d.%s" % (fi, suffix), suffix))
    states = {}
    # the block names of some files contain a colon (`f0b:3`): a reference is split at its *first* colon, file before, name after
    prefixes = [("f%db:" if r.random() < 0.2 else "f%db") % fi for fi in range(nfiles)]
    if nfiles >= 2 and r.random() < 0.2:
        prefixes = ["cb"] * nfiles        # the same block names in every file: identical `:name` references mean different blocks
    for fi, (path, suffix) in enumerate(paths):
        def affects_fn(idx, fi=fi):
            if r.random() > 0.5:
                return None
            if prefixes[0] == "cb" and r.random() < 0.6:
                return ":cb%d" % r.choice([0, 1])      # byte-identical same-file references in several files
            refs = []
            for _ in range(r.choice([1, 1, 2, 3])):
                fj = r.randrange(nfiles)
                k = r.randint(0, 4)
                name = "%s%d" % (prefixes[fj], k)
                x = r.random()
                if x < 0.08:
                    refs.append("%s:%s" % (r.choice(["nope.py", "missing/dir/x.rs"]), name))
                elif fj == fi and r.random() < 0.7:
                    refs.append(":" + name)
                else:
                    fp = paths[fj][0]
                    if "/" in fp and r.random() < 0.1:
                        fp = fp.replace("/", r.choice(["//", "/./"]), 1)       # same file, written with a doubled separator or a `.` component
                    refs.append("%s:%s" % (fp, name))
            refs = list(dict.fromkeys(refs))       # no duplicate references inside one list
            sep = r.choice([",", ", ", " , "])
            return sep.join(refs)

        st = difflab.gen_state(r, path, suffix, prefixes[fi], affects_fn=affects_fn, dup_rate=0.35 if r.random() < 0.3 else 0.0,
                               sentinel=r.random() < 0.5)
        states[path] = st
    return states


def edit_states(r, A, counter, hostile):
    """Returns B states (dict path -> FileState), renames {old: new}, descriptions."""
    B = {}
    renames = {}
    ops_desc = {}
    paths = list(A)
    to_edit = [p for p in paths if r.random() < 0.7] or [r.choice(paths)]
    for p in paths:
        st = A[p]
        if p in to_edit:
            nops = r.choice([1, 1, 2, 3, 5, 8, 12])
            new_lines, origin, ops = difflab.apply_edits(r, st, nops, counter, hostile=hostile)
            if r.random() < 0.25 and st.lines:
                # an extra insertion at the very top, so that every later line shifts
                counter[0] += 1
                top = difflab.new_line_text(r, st.lang, counter[0]).encode()
                keep = len(langs.LANGS[st.lang]["prologue"])
                new_lines = new_lines[:keep] + [top] + new_lines[keep:]
                origin = origin[:keep] + [None] + origin[keep:]
                ops.append(("insert-top", keep + 1, 1))
            nb = difflab.relocate(st, new_lines, origin)
            if not st.final_newline and r.random() < 0.5:
                nb.final_newline = True       # the edit also terminates the last line
            ops_desc[p] = ops
        else:
            nb = difflab.relocate(st, list(st.lines), list(range(len(st.lines))))
        B[p] = nb
    return B, ops_desc


# ------------------------------------------------------------------------------------------ oracle
def block_verdict(bA, bB, groups):
    tagB = set(range(bB.s1, bB.s2 + 1)) | set(range(bB.e1, bB.e2 + 1))
    inB = set(range(bB.s2 + 1, bB.e1))
    if bA is not None:
        tagA = set(range(bA.s1, bA.s2 + 1)) | set(range(bA.e1, bA.e2 + 1))
        inA = set(range(bA.s2 + 1, bA.e1))
    v = MUSTNOT
    why = None
    for g in groups:
        R, Aset = set(g.removed), set(g.added)
        inside = bool(Aset & inB) or (bA is not None and bool(R & inA))
        touch = bool(Aset & tagB) or (bA is not None and bool(R & tagA))
        if inside and touch:
            # one change group that removes/adds content lines *and* rewrites a tag line of this block: unless the k-th removed line
            # and the k-th added line are both the tag line or both not, which of the removed lines was the tag cannot be decided
            # from the diff and the new file alone (same scoring as in C02)
            rem, add = sorted(g.removed), sorted(g.added)
            aligned = bA is not None and len(rem) == len(add) and all((x in tagA) == (y in tagB) for x, y in zip(rem, add))
            if not aligned:
                v, why = DC, "mixed-group"
                continue
        if inside:
            return MUST, ("added" if Aset & inB else "removed") + ("+pure-deletion" if g.pure_deletion() else "")
        adj = ((bB.s1 - 1) in Aset) or ((bB.e2 + 1) in Aset) or (bA is not None and (((bA.s1 - 1) in R) or ((bA.e2 + 1) in R)))
        if touch or adj:
            v, why = DC, "touch" if touch else "adjoin"
    return v, why


def defect_model(bB, groups, fuzz):
    """Prediction of the recorded known finding: pure deletions are located at their *old-file* line number.
    Returns True / False / None (None = any outcome is compatible with the finding)."""
    lc = []
    for g in groups:
        paired = min(len(g.removed), len(g.added))
        for k, a in enumerate(g.added):
            lc.append(a)
        if g.removed and not g.added:
            lc.append(g.removed[0])
    if any(lc[i] > lc[i + 1] for i in range(len(lc) - 1)):
        return None       # unsorted change list: the binary search may or may not find a hit
    lo, hi = bB.s2, bB.e1
    if any(lo + fuzz < x < hi - fuzz for x in lc):
        return True
    if any(lo - fuzz <= x <= hi + fuzz for x in lc):
        return None
    return False


def norm_path(f):
    """File parts are compared as paths: a doubled separator or a `.` component names the same file."""
    if not f:
        return f
    return "/".join(seg for seg in f.split("/") if seg not in ("", "."))


def parse_refs(value, own_path):
    out = []
    for ref in value.split(","):
        ref = ref.strip()
        if ":" not in ref:
            return None
        f, n = ref.split(":", 1)
        out.append((norm_path(f.strip()) or own_path, n.strip()))
    return out


def expected_affects(blocks, modified):
    """blocks: [(path, BlockInfo)], modified: set of indexes -> sorted list of (path, block name, tag line, target file, target name)."""
    named = {(p, b.name) for i, (p, b) in enumerate(blocks) if i in modified and "name" in b.attrs}
    out = []
    for i, (p, b) in enumerate(blocks):
        if i not in modified or "affects" not in b.attrs:
            continue
        for tf, tn in parse_refs(b.attrs["affects"], p):
            if (tf, tn) not in named:
                out.append((p, b.tag_line, tf, tn))
    return sorted(out)


# ------------------------------------------------------------------------------------------ execution
def _manual_state(path, suffix, lines, blocks):
    """Hand-written FileState: blocks = [(name, attrs, s1, s2, e1, e2, col)]."""
    bl, tags = [], set()
    for i, (name, attrs, s1, s2, e1, e2, col) in enumerate(blocks):
        bl.append(difflab.BlockInfo(name=name, attrs=attrs, depth=0, s1=s1, s2=s2, e1=e1, e2=e2, tag_line=s1, tag_col=col,
                                    same_comment=False, uid=i))
        tags |= set(range(s1, s2 + 1)) | set(range(e1, e2 + 1))
    st = difflab.FileState(path, suffix, [l.encode() for l in lines], "\n", bl, tags, True)
    st.protected = set(tags)
    st.lang = langs.SUFFIX_LANG[suffix]
    return st


def witness(ctx, kind, job):
    """Deterministic reproductions of the two recorded known findings."""
    r = rng("c01w", kind)
    if kind == "deletion-after-shift":
        a = ["x = 1", '# <block name="a" affects=":b">', "c1 = 1", "c2 = 2", "# </block>", '# <block name="b">', "d1 = 1", "# </block>"]
        b = ["n1 = 1", "n2 = 2", "n3 = 3", "x = 1", '# <block name="a" affects=":b">', "c1 = 1", "# </block>", '# <block name="b">', "d1 = 1", "# </block>"]
        A = {"f.py": _manual_state("f.py", "py", a, [("a", {"name": "a", "affects": ":b"}, 2, 2, 5, 5, 3), ("b", {"name": "b"}, 6, 6, 8, 8, 3)])}
        B = {"f.py": _manual_state("f.py", "py", b, [("a", {"name": "a", "affects": ":b"}, 5, 5, 7, 7, 3), ("b", {"name": "b"}, 8, 8, 10, 10, 3)])}
    else:
        a = ["int x3 = 0;", '/* <block name="a"> */', "int y = 1;", "/* </block> */", "int z = 2;"]
        b = ["int x3 = 0;", '/* <block name="a"> */', "int y = 1;", "++ x3;", "/* </block> */", "int z = 2;", "int w = 3;"]
        A = {"f.c": _manual_state("f.c", "c", a, [("a", {"name": "a"}, 2, 2, 4, 4, 4)])}
        B = {"f.c": _manual_state("f.c", "c", b, [("a", {"name": "a"}, 2, 2, 5, 5, 4)])}
    root = run.make_repo({p: st.data() for p, st in A.items()}, real_git=True, commit=True)
    try:
        base = run.git(root, "rev-parse", "HEAD").decode().strip()
        c, _v, _b, _s = judge_pair(ctx, r, root, base, A, B, {}, set(), {}, job, first=True, force_variant="worktree", force_ctxw=0)
        return [c]
    finally:
        run.rm(root)


def run_job(job, ctx):
    if job.get("k") == "witness":
        return witness(ctx, job["kind"], job)
    out = []
    for j in range(job["n"]):
        r = rng("c01", job["seed"], job["i"], j)
        try:
            out += one_case(ctx, r, dict(job, j=j))
        except run_error as e:      # noqa
            out.append(Case(INCONCLUSIVE, key=h([job, j]), summary="harness: %s" % e, evals=0))
    return out


class run_error(Exception):
    pass


def one_case(ctx, r, desc):
    A = make_states(r)
    counter = [0]
    hostile = r.random() < 0.25
    root = run.make_repo({p: st.data() for p, st in A.items()}, real_git=True, commit=True)
    try:
        base = run.git(root, "rev-parse", "HEAD").decode().strip()
        B, ops = edit_states(r, A, counter, hostile)
        # structural changes: rename / delete / add
        renames, deleted, added = {}, set(), {}
        x = r.random()
        paths = list(A)
        if x < 0.12:
            p = r.choice(paths)
            newp = p.rsplit("/", 1)[0] + "/renamed_" + p.rsplit("/", 1)[1] if "/" in p else "renamed_" + p
            renames[p] = newp
        elif x < 0.2 and len(paths) >= 2:
            deleted.add(r.choice(paths))
        elif x < 0.3:
            suffix = r.choice(difflab.SAFE_SUFFIXES)
            ap = "added%d.%s" % (r.randrange(100), suffix)
            added[ap] = difflab.gen_state(r, ap, suffix, "addb")
        cases = []
        c, verdicts, blocksB, statesB = judge_pair(ctx, r, root, base, A, B, renames, deleted, added, desc, first=True)
        cases.append(c)
        # ---- history step: touch every missing target, re-diff against the same base ------------------
        if c.status == HELD and verdicts is not None and r.random() < 0.6:
            c2 = history_step(ctx, r, root, base, A, statesB, blocksB, verdicts, renames, deleted, added, counter, desc)
            if c2 is not None:
                cases.append(c2)
        return cases
    finally:
        run.rm(root)


def write_state(root, A, B, renames, deleted, added):
    for p in A:
        full = os.path.join(root, p)
        if os.path.exists(full):
            os.remove(full)
    files = {}
    for p, st in B.items():
        if p in deleted:
            continue
        files[renames.get(p, p)] = st.data()
    for p, st in added.items():
        files[p] = st.data()
    run.write_files(root, files)
    return files


def judge_pair(ctx, r, root, base, A, B, renames, deleted, added, desc, first, force_variant=None, force_ctxw=None):
    files = write_state(root, A, B, renames, deleted, added)
    ctxw = r.choice([0, 0, 0, 1, 2, 3, 3, 5, 10]) if force_ctxw is None else force_ctxw
    variant = force_variant or r.choice(difflab.GIT_VARIANTS)
    if force_variant == "vs-base":
        diff = run.git(root, "diff", "-M", "-U%d" % ctxw, base)
    elif force_variant == "worktree":
        variant = "worktree"
        diff = run.git(root, "diff", "-U%d" % ctxw)
    else:
        diff = difflab.git_diff(r, root, variant, ctxw)
    fds = udiff.parse(diff)
    by_new = {}
    for fd in fds:
        if fd.new_path is not None and not fd.deleted:
            by_new[fd.new_path.decode("utf-8", "replace")] = fd
    # self-check of the reference interpreter
    statesB = {}
    for p, st in B.items():
        if p in deleted:
            continue
        statesB[renames.get(p, p)] = (st, A[p])
    for p, st in added.items():
        statesB[p] = (st, None)
    for np_, (stB, stA) in statesB.items():
        fd = by_new.get(np_)
        if fd is None:
            continue
        old_lines = stA.lines if (stA is not None and not fd.new_file) else []
        if not difflab.check_udiff(list(old_lines), list(stB.lines), fd):
            raise run_error("udiff self-check failed for %s" % np_)
    # ---- oracle -----------------------------------------------------------------------------------
    blocks = []      # (path in B, BlockInfo in B, BlockInfo in A or None, groups, fuzz)
    for np_, (stB, stA) in sorted(statesB.items()):
        fd = by_new.get(np_)
        groups = fd.groups if fd else []
        for k, b in enumerate(stB.blocks):
            bA = stA.blocks[k] if (stA is not None and not (fd and fd.new_file)) else None
            blocks.append((np_, b, bA, groups))
    verdicts = []
    for np_, b, bA, groups in blocks:
        if b.same_comment:
            v, why = (DC, "same-comment") if any(set(g.added) & set(range(b.s1, b.s2 + 1)) for g in groups) else (MUSTNOT, None)
        else:
            v, why = block_verdict(bA, b, groups)
        verdicts.append((v, why))
    ngroups = sum(len(fd.groups) for fd in fds)
    shifted = False
    for fd in fds:
        delta = 0
        for g in fd.groups:
            if delta != 0:
                shifted = True
            delta += len(g.added) - len(g.removed)
    nmust = sum(1 for v, _ in verdicts if v == MUST)
    nnot = sum(1 for v, _ in verdicts if v == MUSTNOT)
    nontrivial = nmust >= 1 and nnot >= 1 and (ngroups >= 2 or shifted)
    with_glob = r.random() < 0.4
    args = ["**"] if with_glob else []
    if not with_glob and r.random() < 0.3 and statesB:
        # a positional glob that matches only one file: files named by the diff stay in scope whatever the globs say,
        # and blocks of the matching file are listed in addition (their flags still follow the diff)
        args = [r.choice(sorted(statesB))]
    lst = run.run(ctx.bin("rel"), ["list"] + args, root, stdin=diff, env={}, cpu_limit=30)
    res = run.run(ctx.bin("rel"), args, root, stdin=diff, env={}, cpu_limit=30)
    key = h([diff.decode("utf-8", "replace"), args])
    kinds = set()
    for fd in fds:
        for g in fd.groups:
            kinds.add("pure-deletion" if g.pure_deletion() else "pure-addition" if g.pure_addition() else
                      "replace-equal" if len(g.removed) == len(g.added) else "replace-unequal")
        if fd.rename_to:
            kinds.add("rename")
        if fd.new_file:
            kinds.add("new-file")
        if fd.deleted:
            kinds.add("deleted-file")
    sets = {"git": ["%s/-U%d" % (variant, ctxw)], "change_kinds": sorted(kinds), "verdict_kinds": sorted({v for v, _ in verdicts}),
            "step": ["first" if first else "history"], "glob": ["**" if with_glob else "none"]}
    wit = {"files_A": files_text({p: st.data() for p, st in A.items()}, 2500), "files_B": files_text(files, 2500),
           "diff": diff.decode("utf-8", "replace")[:4000], "argv": args, "git": "%s -U%d" % (variant, ctxw), "desc": desc,
           "oracle": [(p, b.name, b.tag_line, v, why) for (p, b, _a, _g), (v, why) in zip(blocks, verdicts)]}

    def bad(sig, summary, extra=None):
        w = dict(wit, observed={"list": lst.brief(3000), "run": res.brief(3000)})
        if extra:
            w.update(extra)
        return Case(VIOLATED, key=key, nontrivial=nontrivial, sig=sig, summary=summary, witness=w, evals=2, sets=sets)

    if lst.cls == "wall-timeout" or res.cls == "wall-timeout":
        return Case(INCONCLUSIVE, key=key, summary="wall timeout", evals=2), None, None, None
    for rr, what in ((lst, "list"), (res, "run")):
        if bad_outcome(rr) or rr.cls == "usage":
            return bad("C01/%s-%s" % (what, rr.cls), "%s ended %s: %s" % (what, rr.cls, rr.err_text()[:300])), None, None, None
    # ---- acceptance of the diff ----------------------------------------------------------------------
    if lst.cls != "ok":
        err = lst.err_text()
        body_header = any(l[:4] in (b"--- ", b"+++ ") for fd in fds for g in fd.groups
                          for l in ([b"-" + t for t in g.removed_text] + [b"+" + t for t in g.added_text]))
        unidiff_msg = ("Unexpected hunk found" in err) or ("Target without source" in err)
        if unidiff_msg or "Failed to parse file" not in err and "Failed to read file" not in err:
            # the diff parser (unidiff crate) scans *every* line for `--- `/`+++ ` file headers, hunk bodies included
            sig = "C01/diff-rejected/" + ("hunk-body-line-looks-like-file-header" if (body_header and unidiff_msg) else "other")
            return bad(sig, "a diff produced by git was rejected: %s" % err[:300]), None, None, None
        return bad("C01/list-error", "`list` failed on healthy files: %s" % err[:300]), None, None, None
    listing = lst.listing()
    if listing is None:
        return bad("C01/list-not-json", "list stdout is not JSON"), None, None, None
    # ---- is_content_modified per block ---------------------------------------------------------------
    observed = []
    for np_, b, bA, groups in blocks:
        entry = None
        for x in listing.get(np_, []):
            if x.get("line") == b.tag_line and x.get("column") == b.tag_col:
                entry = x
        if entry is None:
            observed.append(False if not with_glob else None)
        else:
            observed.append(bool(entry.get("is_content_modified")))
    mism = []
    for idx, ((np_, b, bA, groups), (v, why), o) in enumerate(zip(blocks, verdicts, observed)):
        if o is None:
            return bad("C01/block-not-listed", "block %s:%s (line %d) missing from `list **`" % (np_, b.name, b.tag_line)), None, None, None
        if v == MUST and not o:
            mism.append((idx, "missed"))
        elif v == MUSTNOT and o:
            mism.append((idx, "spurious"))
    if mism:
        # is it exactly the recorded known finding?
        explained = True
        for idx, kind in mism:
            np_, b, bA, groups = blocks[idx]
            has_shifted_deletion = any(g.pure_deletion() and g.removed[0] != g.pos for g in groups)
            fuzz = 0
            dm = defect_model(b, groups, fuzz)
            if not has_shifted_deletion or not (dm is None or dm == observed[idx]):
                explained = False
        idx, kind = mism[0]
        np_, b, bA, groups = blocks[idx]
        v, why = verdicts[idx]
        desc_groups = [{"removed_old": g.removed, "added_new": g.added, "pos": g.pos} for g in groups][:8]
        if explained:
            sig = "C01/known/pure-deletion-located-at-old-line-number"
        else:
            sig = "C01/modified-%s/%s/%s" % (kind, why or "outside", "shifted" if shifted else "unshifted")
        return bad(sig, "block %s:%s (tag line %d, content lines %d..%d) is %s modified by the oracle (%s) but blockwatch says %s; groups of that file: %s" % (
            np_, b.name, b.tag_line, b.s2 + 1, b.e1 - 1, "MUST" if v == MUST else "MUST-NOT", why, observed[idx], desc_groups),
            {"mismatches": [(blocks[i][0], blocks[i][1].name, k) for i, k in mism]}), None, None, None
    # ---- affects ------------------------------------------------------------------------------------------
    plain = [(np_, b) for np_, b, _a, _g in blocks]
    must_idx = {i for i, (v, _) in enumerate(verdicts) if v == MUST}
    dc_idx = [i for i, (v, _) in enumerate(verdicts) if v == DC]
    referenced = set()
    for np_, b in plain:
        if "affects" in b.attrs:
            for tf, tn in parse_refs(b.attrs["affects"], np_) or []:
                referenced.add((tf, tn))
    dc_rel = [i for i in dc_idx if "affects" in plain[i][1].attrs or (plain[i][0], plain[i][1].name) in referenced]
    dl = diag_list(res) if res.err.strip() else []
    if dl is None:
        err = res.err_text()
        return bad("C01/run-error", "validation failed with an error on well-formed input: %s" % err[:300]), None, None, None
    got = []
    for f, d in dl:
        if d.get("code") == "line-count" and "sentinel" in d.get("message", ""):
            continue      # the sentinel blocks' own warning (a second validator reporting on the same file)
        if d.get("code") != "affects":
            return bad("C01/foreign-diagnostic", "unexpected diagnostic %s" % str(d)[:200]), None, None, None
        data = d.get("data") or {}
        got.append((f, (d.get("range") or {}).get("start", {}).get("line"), norm_path(data.get("affected_block_file_path")), data.get("affected_block_name")))
    got.sort(key=str)
    judged_affects = True
    if len(dc_rel) > 6:
        judged_affects = False
    else:
        ok = False
        first_exp = None
        for bits in itertools.product([0, 1], repeat=len(dc_rel)):
            mod = set(must_idx) | {i for i, bit in zip(dc_rel, bits) if bit}
            # observed flags decide the don't-care blocks that blockwatch itself reported
            exp = sorted(expected_affects(plain, mod), key=str)
            if first_exp is None:
                first_exp = exp
            if exp == got:
                ok = True
                want_rc = 1 if exp else 0
                if res.rc != want_rc:
                    return bad("C01/exit-%d-want-%d" % (res.rc, want_rc), "exit status %d with %d affects violations" % (res.rc, len(exp))), None, None, None
                break
        if not ok:
            missing = [e for e in first_exp if e not in got]
            extra = [g for g in got if g not in first_exp]
            kind = "missing" if missing and not extra else "extra" if extra and not missing else "different"
            return bad("C01/affects-%s%s" % (kind, "" if not dc_rel else "/with-dont-care"),
                       "affects diagnostics %s differ from every admissible expectation (e.g. %s): missing %s, unexpected %s" % (
                           got[:4], first_exp[:4], missing[:3], extra[:3])), None, None, None
    sample = None
    if nontrivial:
        sample = {"git": "%s -U%d" % (variant, ctxw), "diff": diff.decode("utf-8", "replace")[:500],
                  "blocks": [(p, b.name, v) for (p, b, _a, _g), (v, _w) in zip(blocks, verdicts)][:10],
                  "affects_diagnostics": got[:4], "exit": res.rc}
    c = Case(HELD, key=key, nontrivial=nontrivial, evals=2, sets=sets, sample=sample,
             counters={"blocks_judged": len(blocks), "must": nmust, "must_not": nnot, "dont_care": len(dc_idx),
                       "affects_diagnostics_matched": len(got) if judged_affects else 0, "affects_not_judged": 0 if judged_affects else 1,
                       "change_groups": ngroups, "cases_with_shift": 1 if shifted else 0,
                       "history_steps": 0 if first else 1})
    return c, verdicts, blocks, statesB


def history_step(ctx, r, root, base, A, statesB, blocksB, verdicts, renames, deleted, added, counter, desc):
    """Touch every (transitively) missing target that exists, diff against the same base again."""
    plain = [(np_, b) for np_, b, _a, _g in blocksB]
    modified = {i for i, (v, _) in enumerate(verdicts) if v == MUST}
    if any(v == DC for v, _ in verdicts):
        return None
    by_name = {}
    for i, (p, b) in enumerate(plain):
        by_name.setdefault((p, b.name), []).append(i)
    impossible = False
    to_touch = set()
    frontier = set(modified)
    seen = set(modified)
    while frontier:
        nxt = set()
        for i in frontier:
            p, b = plain[i]
            if "affects" not in b.attrs:
                continue
            for tf, tn in parse_refs(b.attrs["affects"], p):
                idxs = by_name.get((tf, tn), [])
                if any(j in seen for j in idxs):
                    continue
                cands = [j for j in idxs if not plain[j][1].same_comment]
                if not cands:
                    impossible = True
                    continue
                j = cands[0]
                to_touch.add(j)
                seen.add(j)
                nxt.add(j)
                # the line inserted into block j also lies inside every enclosing block
                pj, bj = plain[j]
                for k, (pk, bk) in enumerate(plain):
                    if pk == pj and k != j and k not in seen and not bk.same_comment and bk.s2 < bj.s2 < bk.e1:
                        seen.add(k)
                        nxt.add(k)
        frontier = nxt
    if not to_touch:
        return None
    # build B'' by inserting one fresh line right after the start-tag comment of each block to touch
    B2 = {}
    per_file = {}
    for j in to_touch:
        per_file.setdefault(plain[j][0], []).append(plain[j][1])
    inv = {v: k for k, v in renames.items()}
    A2, B2, added2 = {}, {}, {}
    for np_, (stB, stA) in statesB.items():
        ins = sorted((b.s2 for b in per_file.get(np_, [])), reverse=True)
        lines = list(stB.lines)
        origin = list(range(len(lines)))
        for s2 in ins:
            counter[0] += 1
            lines.insert(s2, difflab.new_line_text(r, stB.lang, counter[0]).encode())
            origin.insert(s2, None)
        nst = difflab.relocate(stB, lines, origin)
        if stA is None:
            added2[np_] = nst
        else:
            B2[inv.get(np_, np_)] = nst
    for p in A:
        if p in deleted:
            B2[p] = A[p]
    c, v2, _b, _s = judge_pair(ctx, r, root, base, A, B2, renames, deleted, added2, dict(desc, step="history"), first=False, force_variant="vs-base")
    if c.status == HELD and v2 is not None and not impossible:
        # every linked block has been touched: the run must pass
        obs = (c.sample or {}).get("exit") if c.sample else None
        if c.counters.get("affects_diagnostics_matched", 0) != 0:
            return Case(VIOLATED, key=c.key, nontrivial=True, sig="C01/history/still-failing-after-touching-all-targets",
                        summary="after touching every linked block the run still reports affects violations: %s" % str((c.sample or {}).get("affects_diagnostics")),
                        witness={"desc": desc, "second_run": c.sample, "touched": [(plain[j][0], plain[j][1].name) for j in sorted(to_touch)]}, sets=c.sets)
    return c


LEVEL_TEXT = ("Sampling over state pairs, edit scripts and git invocations with an independent diff interpreter as oracle (self-"
              "checked on every case) and construction truth for block extents in both states; every block is classified "
              "MUST / MUST-NOT / DON'T-CARE exactly along the statement, `affects` diagnostics and exit status are derived "
              "from the MUST set, and a history step touches the missing targets and expects a pass. Real git produces all "
              "diffs. Held on the executions observed.")
LEVEL_NOTE = ("Trusted: bwverif.udiff (self-checked), generator truth for tag extents (validated by C03), git. Known finding: "
              "pure deletions are located at old-file line numbers (labelled only when a defect model reproduces the observation).")
TECHNIQUE = "runtime monitoring: reference diff interpreter + construction-truth oracle over git-produced diffs of edited state pairs; multi-step history (fail, touch targets, pass)"
