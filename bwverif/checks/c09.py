"""C09 - line-count reports a block iff its size breaks the bound (reference model, full grid)."""
import itertools

from .. import models, run, vbatch
from .common import Case, HELD, VIOLATED, h, rng

ID = "C09"
LEVEL = "exploration"
BUILDS = ["rel"]
BUDGET_S = {"quick": 600, "thorough": 1800}
EXHAUSTIVE = {"quick": "operator x N in 0..6 x spelling x every arrangement of <=7 slots over {line, blank, spaces-only, tab-only} x content-on-tag-line",
              "thorough": "operator x N in 0..6 x spelling x every arrangement of <=8 slots over {line, blank, spaces-only, tab-only, indented line} x content-on-tag-line"}
OPS = ["<", "<=", "==", ">=", ">"]
SPELL = ["%s%d", "%s %d", " %s  %d ", "%s\t%d"]
RULE = ("Full grid: operator in {<,<=,==,>=,>} x N in 0..6 x 4 spellings (optional spaces/tabs) x every arrangement of up "
        "to 7 (thorough 8) content slots over {non-blank line, empty line, spaces-only line, ideographic-space-only line(, indented "
        "line)} x {content starts on its own line, content starts on the tag's line (JavaScript `/* <block ..> */ x`), "
        "empty block}; plus random large N / large blocks, CRLF, and nested blocks whose tag lines must count. The "
        "reference model decides presence and data.actual/op/expected. A case is one block; non-trivial = content has "
        ">=1 blank and >=1 non-blank line or sits on the tag's line; distinct = hash of (attributes, lines, layout).")
ASSUMPTIONS = ["hash-comment (Python) and C-style (JavaScript) hosts only; positions belong to C10"]


def plan(tier, seed):
    jobs = []
    maxslots = 7 if tier == "quick" else 8
    for op in range(len(OPS)):
        for n in range(0, 7):
            jobs.append({"k": "grid", "op": op, "n": n, "maxslots": maxslots, "tier": tier})
    for i in range(12 if tier == "quick" else 300):
        jobs.append({"k": "rand", "i": i, "seed": seed})
    jobs.append({"k": "nested", "seed": seed})
    jobs.append({"k": "empty-content", "seed": seed})
    jobs.append({"k": "diff-glob", "seed": seed})
    return jobs


def model(b):
    r = models.line_count(b.content, dict(b.attrs)["line-count"])
    return None if r is None else {"data": r}


def _nontrivial(b):
    blanks = sum(1 for l in b.lines if not l.strip())
    return (blanks >= 1 and blanks < len(b.lines)) or bool(b.inline_first)


def _sets(b, exp):
    e = dict(b.attrs)["line-count"].strip()
    op = e[:2] if e[:2] in ("<=", ">=", "==") else e[:1]
    return {"op": [op], "verdict": ["violation" if exp else "ok"], "layout": ["inline" if b.inline_first else "own-line"]}


def run_job(job, ctx):
    acc = vbatch.Acc()
    if job["k"] == "grid":
        op, n = OPS[job["op"]], job["n"]
        slots = ["x1", "", "   ", "\u3000"] + (["  y"] if job["tier"] == "thorough" else [])
        for style in ("hash", "c"):
            blocks = []
            for spell in SPELL:
                expr = spell % (op, n)
                for L in range(0, job["maxslots"] + 1):
                    # arrangements: choose which of the L slots are non-blank, blanks cycle through the variants
                    for mask in itertools.product([0, 1], repeat=L):
                        lines = []
                        bi = 0
                        for m in mask:
                            if m:
                                lines.append(slots[0] if bi % 2 == 0 or len(slots) < 5 else slots[4])
                            else:
                                lines.append(slots[1 + bi % 3])
                            bi += 1
                        extra = [("keep-unique", None)] if (len(blocks) % 7 == 3) else []     # a second validator on the same block/file
                        blocks.append(vbatch.BBlock([("line-count", expr)] + extra, lines))
                        if style == "c":
                            blocks.append(vbatch.BBlock([("line-count", expr)], lines, inline_first=" x0;"))
                            blocks.append(vbatch.BBlock([("line-count", expr)], lines, inline_first="   "))
            for i in range(0, len(blocks), 2500):
                for c in vbatch.run_batch(ctx, blocks[i:i + 2500], style, "line-count", model, sig_prefix="C09",
                                          nontrivial_fn=_nontrivial, sets_fn=_sets, ignore_codes=("keep-unique",)):
                    acc.add(c)
    elif job["k"] == "rand":
        r = rng("c09", job["seed"], job["i"])
        blocks = []
        for _ in range(30):
            n = r.choice([0, 1, 7, 10, 50, 99, 100, 101, 400, 4000, 10 ** 9, 18446744073709551615])
            k = r.choice([0, 1, 5, 9, 10, 11, 49, 50, 51, 99, 100, 101, 399, 400] + ([65535, 65536, 65537, 70000] if job["i"] % 8 == 5 else []))
            if k > 60000:
                n = r.choice([65535, 65536, 65537, 70000, 4294967296])
            lines = []
            for _ in range(k):
                lines.append(r.choice(["v", "  v", "é", "0", "- item"]))
                if r.random() < 0.2:
                    lines.append(r.choice(["", "  ", "\t", " ", "\r", "\x0c", "\x0b", "\u2028", "\u0085", "\u3000", "\u00a0 ", "\ufeff"]))      # U+FEFF is not White_Space: that line counts
            expr = r.choice(SPELL) % (r.choice(OPS), n)
            blocks.append(vbatch.BBlock([("line-count", expr)], lines))
        eol = "\r\n" if job["i"] % 3 == 0 else "\n"
        for c in vbatch.run_batch(ctx, blocks, r.choice(["hash", "c"]), "line-count", model, eol=eol, bom=(job["i"] % 3 == 1), sig_prefix="C09",
                                  nontrivial_fn=_nontrivial, sets_fn=_sets):
            acc.add(c)
    elif job["k"] == "diff-glob":
        # the bound is broken by a change that arrives through a diff while a positional glob selects *another* file:
        # files named by the diff are validated whatever the globs say
        out = []
        for n, (op, bound) in enumerate([("<=", 2), ("<", 3), ("==", 2), (">=", 4), (">", 3)]):
            for ctxw in (0, 3):
                a = "# <block name=\"w\" line-count=\"%s%d\">\nx1\nx2\n# </block>\n" % (op, bound)
                grow = op in ("<=", "<", "==")
                b = a.replace("x2\n", "x2\nx3\n") if grow else a.replace("x1\nx2\n", "x1\n")
                other = "# <block name=\"o\" line-count=\">=0\">\ny\n# </block>\n"
                root = run.make_repo({"src/pkg/a.py": a, "lib/other.py": other}, real_git=True, commit=True)
                try:
                    run.write_files(root, {"src/pkg/a.py": b})
                    diff = run.git(root, "diff", "-U%d" % ctxw)
                    for glob in (["lib/**"], ["*.toml"], []):
                        res = run.run(ctx.bin("rel"), glob, root, stdin=diff, env={})
                        want = models.line_count("\n" + "".join(l + "\n" for l in (["x1", "x2", "x3"] if grow else ["x1"])), "%s%d" % (op, bound))
                        got = [d.get("data") for f, lst in (res.diagnostics() or {}).items() for d in lst if f == "src/pkg/a.py"]
                        key = h(["diff-glob", op, bound, ctxw, glob])
                        sets = {"layout": ["diff+glob" if glob else "diff"], "op": [op]}
                        if got != ([want] if want else []) or res.rc != (1 if want else 0):
                            out.append(Case(VIOLATED, key=key, nontrivial=True, sets=sets, sig="C09/diff-glob/%s" % ("missed" if want else "spurious"),
                                            summary="diff changes src/pkg/a.py to %s lines under line-count=%s%d, globs %s: got %s exit %s, expected %s" % (
                                                3 if grow else 1, op, bound, glob, got, res.rc, want),
                                            witness={"diff": diff.decode(), "globs": glob, "observed": res.brief(1500)}))
                        else:
                            out.append(Case(HELD, key=key, nontrivial=True, sets=sets, counters={"blocks": 1}))
                finally:
                    run.rm(root)
        return out
    elif job["k"] == "empty-content":
        out = []
        for host, tmpl in (("e.py", '# <block name="%s" line-count="%s"></block>'), ("e.js", '/* <block name="%s" line-count="%s"> *//* </block> */'),
                           ("e.rs", '// <block name="%s" line-count="%s"> </block>'), ("e.md", '<!-- <block name="%s" line-count="%s"></block> -->\n')):
            lines, exp = [], {}
            k = 0
            for op in OPS:
                for n in (0, 1, 2):
                    name = "z%d" % k
                    k += 1
                    expr = "%s%d" % (op, n)
                    lines.append(tmpl % (name, expr))
                    exp[name] = models.line_count("", expr)
            root = run.make_repo({host: "\n".join(lines) + "\n"})
            try:
                res = run.run(ctx.bin("rel"), [], root, stdin=None, env={"BLOCKWATCH_TERMINAL_MODE": "1"})
            finally:
                run.rm(root)
            got = {}
            for f, lst in (res.diagnostics() or {}).items():
                for d in lst:
                    m = vbatch.MSG_RE.match(d.get("message", ""))
                    if m:
                        got[m.group(2)] = d.get("data")
            for name, want in exp.items():
                key = h([host, name])
                sets = {"layout": ["empty-content/" + host.split(".")[1]], "verdict": ["violation" if want else "ok"]}
                if got.get(name) != want:
                    out.append(Case(VIOLATED, key=key, nontrivial=True, sig="C09/empty-content/%s" % ("missed" if want else "spurious"), sets=sets,
                                    summary="block %s with empty content in %s: data %s, expected %s" % (name, host, got.get(name), want),
                                    witness={"file": "\n".join(lines), "observed": res.brief(2000)}, evals=0))
                else:
                    out.append(Case(HELD, key=key, nontrivial=True, sets=sets, evals=0, counters={"blocks": 1}))
            out[0].evals = 1
        return out
    else:
        # nested blocks: the inner blocks' tag lines are ordinary lines of the outer block
        blocks = []
        for inner in range(0, 4):
            for extra in range(0, 3):
                lines = []
                for k in range(inner):
                    lines += ["# <block name=\"in%d_%d_%d\">" % (inner, extra, k), "v", "", "# </block>"]
                lines += ["w"] * extra
                actual = inner * 3 + extra
                for op in OPS:
                    for n in (actual - 1, actual, actual + 1):
                        if n >= 0:
                            blocks.append(vbatch.BBlock([("line-count", "%s%d" % (op, n))], lines))
        for c in vbatch.run_batch(ctx, blocks, "hash", "line-count", model, sig_prefix="C09", prefix="outer",
                                  nontrivial_fn=lambda b: any("<block" in l for l in b.lines), sets_fn=_sets):
            acc.add(c)
    return acc.to_cases(h(job))


LEVEL_TEXT = ("Full-grid comparison with a reference model: every operator, bound 0..6, spelling, blank/non-blank arrangement "
              "up to 7-8 slots and both content placements is executed by the real binary and judged on presence and on "
              "data.actual/op/expected; random large bounds (up to u64::MAX) and nested blocks add reach.")
LEVEL_NOTE = "Trusted: reference model in bwverif/models.py (Rust lines/trim emulation)."
TECHNIQUE = "runtime monitoring: reference-model oracle over a full parameter grid executed in batches by the real binary"
