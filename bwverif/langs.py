"""Hand-checked table of the 23 grammars / 39 registered suffixes: comment forms, code lines that
lex cleanly, and places where a decoy tag is *not* in a comment (strings, code, markup).

Only uncontroversial forms are listed: the generator's claim "this text is a comment in
language L" must be true by the language definition, otherwise the oracle would be the liar.
"""


class Form:
    def __init__(self, fid, kind, open_, close="", cont="", forbid=(), col0=False, trailing_code=True,
                 blank_around=False, family="c", eats_newline=False, no_lead_slash=False):
        self.id = fid
        self.kind = kind              # "line" | "block"
        self.open = open_
        self.close = close
        self.cont = cont              # decoration at the start of continuation lines of a block comment
        self.forbid = tuple(forbid)   # substrings the comment body must not contain
        self.col0 = col0              # must start in column 1
        self.trailing_code = trailing_code and kind == "block"   # code may follow the close on the same line
        self.blank_around = blank_around
        self.family = family          # markdown keeps separate pairing stacks per family
        self.eats_newline = eats_newline  # the comment node includes its line terminator
        self.no_lead_slash = no_lead_slash


def _c_block(fid="block", open_="/*", cont="", **kw):
    return Form(fid, "block", open_, "*/", cont=cont, forbid=("*/",), **kw)


C_LINE = Form("line", "line", "//")
C_BLOCK = _c_block()
C_BLOCK_STAR = _c_block("block-star", "/*", cont=" * ")
C_DOC_BLOCK = _c_block("doc-block", "/**", cont=" * ")
C_BLOCK_2STAR = _c_block("block-2star", "/**", cont=" ** ")      # banner style: only the first star of a line is decoration
HASH = Form("hash", "line", "#")
XML_C = Form("xml", "block", "<!--", "-->", forbid=("--",), family="html")

# a `//` comment continued onto the next line by a backslash (line splicing): the tag sits on the continuation line
C_LINE_SPLICED = Form("line-spliced", "line", "// continued \\\n   ")

C_CODE = ["int x = 1;", "int y = x + 2;", "x++;"]
C_DECOY = ['const char *s%d = "<block name=\\"decoy\\">";', 'const char *t%d = "</block>";',
           'const char *m%d = "a \\\n// <block name=\\"ml\\">";']

LANGS = {
    "bash": dict(suffixes=["sh", "bash"], forms=[HASH], code=["x=1", "echo hi", "y=$((x + 1))"],
                 decoys=["s%d='<block name=\"decoy\">'", 'echo "</block>" # %d', 'cat <<\'EOF%d\'\n# <block name="ml">\nEOF%d']),
    "c": dict(suffixes=["c"], forms=[C_LINE, C_BLOCK, C_BLOCK_STAR, C_DOC_BLOCK, C_LINE_SPLICED], code=C_CODE, decoys=C_DECOY),
    "cpp": dict(suffixes=["cc", "cpp", "h"], forms=[C_LINE, C_BLOCK, C_BLOCK_STAR, C_DOC_BLOCK, Form("doc-line", "line", "///"), C_BLOCK_2STAR, C_LINE_SPLICED],
                code=C_CODE,
                decoys=C_DECOY + ['const char *r%d = R"x(" /* <block name="rawdecoy"> */ " /* </block> */ ")x";',
                                  'const char *q%d = R"(// <block name="rawline">)";']),
    "c_sharp": dict(suffixes=["cs"], forms=[C_LINE, Form("doc-line", "line", "///"), C_BLOCK, C_BLOCK_STAR, C_DOC_BLOCK],
                    code=["int x = 1;", "var y = x + 2;"],
                    decoys=['string s%d = "<block name=decoy>";', 'string t%d = "</block>";', 'string m%d = @"\n// <block name=ml>\n";']),
    "css": dict(suffixes=["css"], forms=[C_BLOCK, C_BLOCK_STAR, C_DOC_BLOCK], code=["a { color: red; }", "p { margin: 0; }"],
                decoys=['a::before { content: "<block name=decoy%d>"; }', 'a::after { content: "</block>%d"; }']),
    "go": dict(suffixes=["go"], forms=[C_LINE, C_BLOCK, C_BLOCK_STAR, C_DOC_BLOCK], prologue=["package main", ""],
               code=["var x = 1", "var y = x + 2"],
               decoys=['var s%d = "<block name=decoy>"', "var t%d = `</block>`", 'var m%d = `\n// <block name="ml">\n`']),
    "gomod": dict(suffixes=["go.mod", "go.sum", "go.work"], forms=[C_LINE], code=["module example.com/m", "go 1.22"],
                  decoys=[]),
    "html": dict(suffixes=["html", "htm"], forms=[XML_C], code=["<p>text</p>", "<div><span>x</span></div>"],
                 decoys=['<block name="decoy%d"></block>', '<p title="<block name=decoy%d>">x</p>', '<script>\n// <block name="ml%d">\n/* </block> */\n</script>', '<style>\n/* <block name="css%d"> */\n</style>']),
    "java": dict(suffixes=["java"], forms=[C_LINE, C_BLOCK, C_BLOCK_STAR, C_DOC_BLOCK, C_BLOCK_2STAR],
                 code=["int x = 1;", "int y = x + 2;"],
                 decoys=['String s%d = "<block name=decoy>";', 'String t%d = "</block>";']),
    "javascript": dict(suffixes=["js", "jsx"], forms=[C_LINE, C_BLOCK, C_BLOCK_STAR, C_DOC_BLOCK],
                       code=["let x = 1;", "const y = x + 2;"],
                       decoys=['const s%d = "<block name=decoy>";', "const t%d = `</block>`;", "const u%d = '<block>';let w%d='</block>';", 'const m%d = `\n// <block name="ml">\n/* </block> */\n`;']),
    # Kotlin: no code after a block comment on the same line in generated files. tree-sitter-kotlin-ng
    # loses every later comment after `decl NEWLINE /* c */ code` (known finding C03/kotlin-inline,
    # reproduced by a dedicated witness job instead of polluting the random workload).
    "kotlin": dict(suffixes=["kt", "kts"],
                   forms=[C_LINE, _c_block(trailing_code=False), _c_block("block-star", "/*", cont=" * ", trailing_code=False),
                          _c_block("nested-block-star", "/* /* inner */", cont=" * ", trailing_code=False)],      # block comments nest in Kotlin
                   code=["val x = 1", "val y = x + 2"],
                   decoys=['val s%d = "<block name=decoy>"', 'val t%d = "</block>"', 'val m%d = """\n// <block name="ml">\n"""']),
    "makefile": dict(suffixes=["Makefile", "makefile", "mk"], forms=[Form("hash", "line", "#", col0=True)],
                     code=["X = 1", "Y := $(X)", "all:", "\techo hi"], decoys=[], indent=False),
    "markdown": dict(suffixes=["md", "markdown"],
                     forms=[Form("md-paren", "line", "[//]: # (", ")", forbid=("(", ")"), col0=True, blank_around=True, family="md"),
                            Form("md-dquote", "line", '[//]: # "', '"', forbid=('"',), col0=True, blank_around=True, family="md"),
                            # the link destination need not be `#`: any non-blank text, ASCII or not
                            Form("md-paren-uni", "line", "[//]: \u00a7\u00e9 (", ")", forbid=("(", ")"), col0=True, blank_around=True, family="md"),
                            Form("md-dquote-angle", "line", '[//]: <#caf\u00e9> "', '"', forbid=('"',), col0=True, blank_around=True, family="md"),
                            Form("xml", "block", "<!--", "-->", forbid=("--", ), col0=True, blank_around=True, family="html", trailing_code=False)],
                     code=["Some paragraph text.", "# Heading", "- item one", "- item two"],
                     decoys=["Inline `<block name=decoy%d>` code and `</block>`.", "```\n<block name=\"decoy%d\">\n</block>\n```"],
                     indent=False),
    "php": dict(suffixes=["php", "phtml"], forms=[C_LINE, HASH, C_BLOCK, C_BLOCK_STAR, C_DOC_BLOCK], prologue=["<?php"],
                code=["$x = 1;", "$y = $x + 2;"],
                decoys=['$s%d = "<block name=decoy>";', "$t%d = '</block>';", '$m%d = <<<\'EOT\'\n// <block name="ml">\n# </block>\nEOT;']),
    "python": dict(suffixes=["py", "pyi"], forms=[HASH], code=["x = 1", "y = x + 2"], indent=False,
                   decoys=['s%d = "<block name=decoy>"', "t%d = '</block>'", '"""<block name=doc%d>"""', 'd%d = """\n# <block name="ml">\n<block name="ml2">\n"""']),
    "ruby": dict(suffixes=["rb"],
                 # `=begin` / `=end` (each at the start of its own line) enclose Ruby's block comment
                 forms=[HASH, Form("begin-end", "block", "=begin\n", "\n=end", col0=True, trailing_code=False, forbid=("\n=end",))],
                 code=["x = 1", "y = x + 2"],
                 decoys=['s%d = "<block name=decoy>"', "t%d = '</block>'", 'm%d = <<~EOS\n  # <block name="ml">\nEOS']),
    "rust": dict(suffixes=["rs"],
                 forms=[C_LINE, Form("doc-line", "line", "///", eats_newline=True), C_BLOCK, C_BLOCK_STAR, C_DOC_BLOCK,
                        Form("inner-doc-line", "line", "//!", eats_newline=True), _c_block("inner-doc-block", "/*!", cont=" * "),
                        # block comments nest in Rust: the tag sits after an inner, already closed comment
                        _c_block("nested-block", "/* /* inner */"),
                        # ... and the same with star-decorated continuation lines
                        _c_block("nested-block-star", "/* /* inner */", cont=" * ")],
                 code=["let x = 1;", "let y = x + 2;"],
                 decoys=['let s%d = "<block name=decoy>";', 'let t%d = r#"</block>"#;', 'let m%d = r#"\n// <block name="ml">\n/* </block> */\n"#;']),
    "sql": dict(suffixes=["sql"], forms=[Form("dash", "line", "--"), C_BLOCK, C_BLOCK_STAR, C_DOC_BLOCK],
                code=["SELECT 1;", "SELECT a FROM t;"],
                decoys=["SELECT '<block name=decoy%d>';", "SELECT '</block>' AS c%d;", 'SELECT \'\n-- <block name="ml%d">\n\';']),
    "swift": dict(suffixes=["swift"], forms=[C_LINE, C_BLOCK, C_BLOCK_STAR, Form("doc-line", "line", "///"), C_DOC_BLOCK,
                                             _c_block("nested-block", "/* /* inner */"), _c_block("nested-block-star", "/* /* inner */", cont=" * ")],
                  code=["let x = 1", "var y = x + 2"],
                  decoys=['let s%d = "<block name=decoy>"', 'let t%d = "</block>"']),
    "toml": dict(suffixes=["toml"], forms=[HASH], code=["x = 1", 'y = "two"'],
                 decoys=['s%d = "<block name=decoy>"', "t%d = '</block>'", 'm%d = """\n# <block name="ml">\n"""']),
    "typescript": dict(suffixes=["ts", "d.ts"], forms=[C_LINE, C_BLOCK, C_BLOCK_STAR, C_DOC_BLOCK, Form("triple-slash", "line", "///")],
                       code=["let x: number = 1;", "const y = x + 2;"],
                       decoys=['const s%d = "<block name=decoy>";', "const t%d = `</block>`;", 'const m%d = `\n// <block name="ml">\n`;']),
    "tsx": dict(suffixes=["tsx"], forms=[C_LINE, C_BLOCK, C_BLOCK_STAR],
                code=["let x: number = 1;", "const y = x + 2;"],
                decoys=['const s%d = "<block name=decoy>";', "const t%d = `</block>`;", 'const m%d = `\n// <block name="ml">\n`;']),
    "xml": dict(suffixes=["xml"], forms=[XML_C], prologue=["<root>"], epilogue=["</root>"],
                code=["<item>text</item>", "<a><b>x</b></a>"],
                decoys=['<block name="decoy%d"></block>', "<c%d><![CDATA[<block name=x> </block>]]></c%d>", '<d%d><![CDATA[\n<!-- <block name="ml"> -->\n]]></d%d>']),
    "yaml": dict(suffixes=["yaml", "yml"], forms=[HASH], code=["x: 1", "y: two"], indent=False,
                 decoys=['s%d: "<block name=decoy>"', "t%d: '</block>'", 'm%d: |\n  # <block name="ml">\n  # </block> x']),
}

# Enclosing constructs. CONTAINERS: (opening line, closing line, member lines) - items of a generated file may sit inside one
# (comments between the members of a class / in a function body are comments like any other). NEST: (wrapper open, level open,
# level close, wrapper close, indentation unit) - a construct that can be nested a hundred levels deep.
CONTAINERS = {
    "swift": [("class Config {", "}", ["var a = 1", "let b = 2", "func f() {}"]), ("struct S {", "}", ["var a = 1"]), ("func f() {", "}", None)],
    "kotlin": [("class Config {", "}", ["val a = 1", "fun f() {}"]), ("fun f() {", "}", None)],
    "java": [("class Config {", "}", ["int a = 1;", "void f() {}"]), ("interface I {", "}", ["void f();"])],
    "c_sharp": [("class Config {", "}", ["int a = 1;", "void F() {}"]), ("namespace N {", "}", ["class C {}"])],
    "cpp": [("namespace n {", "}", None), ("struct S {", "};", ["int a;", "void f();"]), ("void f() {", "}", None)],
    "c": [("void f(void) {", "}", None), ("struct s {", "};", ["int a;", "char b;"])],
    "rust": [("mod m {", "}", ["const A: u8 = 1;", "fn f() {}"]), ("fn f() {", "}", None), ("impl S {", "}", ["fn g(&self) {}"])],
    "go": [("func f() {", "}", None), ("type T struct {", "}", ["a int", "b string"])],
    "javascript": [("function f() {", "}", None), ("class C {", "}", ["a = 1;", "m() {}"])],
    "typescript": [("function f() {", "}", None), ("class C {", "}", ["a = 1;", "m() {}"]), ("interface I {", "}", ["a: number;"])],
    "tsx": [("function f() {", "}", None), ("class C {", "}", ["a = 1;", "m() {}"])],
    "php": [("function f() {", "}", None), ("class C {", "}", ["public $a = 1;", "function m() {}"])],
    "css": [("@media screen {", "}", None)],
    "ruby": [("class C", "end", None), ("def f", "end", None)],
    "bash": [("f() {", "}", None)],
    "html": [("<section>", "</section>", None), ("<ul><li>", "</li></ul>", None)],
    "xml": [("<group>", "</group>", None)],
    "sql": [],
}
NEST = {
    "c": ("void f(void) {", "if (1) {", "}", "}", "  "), "cpp": ("void f() {", "if (1) {", "}", "}", "  "),
    "java": ("class A { void f() {", "if (true) {", "}", "} }", "  "), "c_sharp": ("class A { void F() {", "if (true) {", "}", "} }", "  "),
    "kotlin": ("fun f() {", "if (true) {", "}", "}", "  "), "swift": ("func f() {", "if true {", "}", "}", "  "),
    "go": ("func f() {", "if true {", "}", "}", "\t"), "rust": ("fn f() {", "if true {", "}", "}", "    "),
    "javascript": ("", "if (true) {", "}", "", "  "), "typescript": ("", "if (true) {", "}", "", "  "), "tsx": ("", "if (true) {", "}", "", "  "),
    "php": ("", "if (true) {", "}", "", "  "), "css": ("", "@media screen {", "}", "", "  "),
    "html": ("", "<div>", "</div>", "", " "), "xml": ("", "<g>", "</g>", "", " "),
    "ruby": ("", "if true", "end", "", "  "), "bash": ("", "if true; then", "fi", "", "  "),
    "yaml": ("", "k:", None, "", "  "), "python": ("", "if True:", None, "", "    "),
}

# Comments that live in the *code* part of a string interpolation (or of code embedded in markup): genuine comments although an
# ancestor node is a string / template / markup node. (text before, comment form, text after; %d = unique number)
INTERP = {
    "javascript": [("const i%d = `x ${ ", C_BLOCK, " 1 } y`;"), ("const k%d = `x ${ 1 ", C_LINE, "\n} y`;")],
    "typescript": [("const i%d = `x ${ ", C_BLOCK, " 1 } y`;"), ("const k%d = `x ${ 1 ", C_LINE, "\n} y`;")],
    "tsx": [("const i%d = `x ${ ", C_BLOCK, " 1 } y`;"), ("const j%d = <div>{", C_BLOCK, "}</div>;")],
    "bash": [('v%d="$(\n  ', HASH, '\n  echo a\n)"')],
    "python": [('i%d = f"""x {1  ', HASH, '\n} y"""')],
    "ruby": [('i%d = "x #{1 ', HASH, '\n} y"')],
    "kotlin": [('val i%d = "x ${ ', C_BLOCK, ' 1 } y"')],
    "c_sharp": [('var i%d = $"x { ', C_BLOCK, ' 1 } y";')],
    "php": [("?><p><?php ", C_BLOCK, " echo 1; ?></p><?php")],
}

for _name, _l in LANGS.items():
    _l.setdefault("prologue", [])
    _l.setdefault("epilogue", [])
    _l.setdefault("indent", True)
    _l["name"] = _name

SUFFIX_LANG = {}
for _name, _l in LANGS.items():
    for _s in _l["suffixes"]:
        SUFFIX_LANG[_s] = _name

ALL_SUFFIXES = sorted(SUFFIX_LANG)
assert len(ALL_SUFFIXES) == 39, len(ALL_SUFFIXES)

# The registered table (suffix -> grammar family) as documented in the README.
GRAMMAR_OF_SUFFIX = {s: ("go" if SUFFIX_LANG[s] == "gomod" else SUFFIX_LANG[s]) for s in ALL_SUFFIXES}
assert len(set(GRAMMAR_OF_SUFFIX.values())) == 23


def file_name_for(suffix, stem="f"):
    """A file name that maps to the given registered suffix."""
    if suffix in ("Makefile", "makefile"):
        return suffix
    if suffix in ("go.mod", "go.sum", "go.work"):
        return suffix
    return "%s.%s" % (stem, suffix)
