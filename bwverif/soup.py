"""Hostile inputs for C04: token soups over a language's delimiters and byte-level mutations."""
from .langs import LANGS

TAG_FRAGS = ["<block line-count=\"<3\"></block>", "<block keep-sorted></block>", "<block keep-unique>x</block>", "<block", "<block>", "<block name=\"", "<block name='x'", "<block a=b", "<block\n", "</", "</block", "</block>",
             "< / block >", "</ block>", "<block/>", "<block name=x>", "<block keep-sorted>", "<block line-count=\"<3\">",
             "<block keep-unique=\"(\">", "<block affects=\":x\">", "<", ">", "=", "<!", "<blockquote>", "<block name=>"]
COMMON = ["\n", "\n", "\r\n", " ", "\t", "\"", "'", "`", "(", ")", "[", "]", "{", "}", "\\", "x", "a1", ";", ":", ",",
          " ", "‍", "\U0001F468‍\U0001F469‍\U0001F467", "é", " ", "\u0085", "﻿", "\x0b", "\x0c",
          "\x1b", "\x7f", "é", "日本", "*", "/", "#", "-", "!", "?", "%", "$", "@", "&amp;", "0"]
BY_FAMILY = {
    "c": ["/*", "*/", "/*/", "//", "/**", "/**/", "///", "//!", "*", "/* *", "*/ /*", "/*!", "\n\u3000* ", "\n\u00a0 * ", "\n \u00a0", "\n\u3000", " ** ", "\n ** "],
    "hash": ["#", "#!", "##", "# ", "=begin", "=end", "\"\"\"", "'''", "<<EOF", "EOF"],
    "xml": ["<!--", "-->", "<!--->", "<!---->", "--", "--!>", "<![CDATA[", "]]>", "<?xml", "?>", "<a>", "</a>", "<a b=\"", "&lt;"],
    "md": ["[//]:", "[//]: #", "[//]: # (", "[//]: # \"", "[//]: # '", "[//]: #?>", ")", "```", "~~~", "    ", "> ", "- ", "1. ",
           # link definitions whose *destination* holds a lone delimiter character, and titles closed the wrong way round
           "[//]: a'b\n", "[//]: a\"b\n", "[//]: (x\n", "[//]: x)y(z\n", "[//]: http://e.com/it's\n", "[//]: # )(\n", "[//]: <a'b> \n",
           "\n[//]: '\n", "\n[//]: \"\n", "\n[//]: #'x\n",
           "[x]: y", "[//]: <> (", "<!--", "-->", "<div>", "</div>", "# ", "---", "***", "|a|b|"],
    "sql": ["--", "/*", "*/", "-- ", "$$", "';", "SELECT", "E'"],
    "php": ["<?php", "?>", "<?=", "//", "#", "/*", "*/", "<<<EOT", "EOT;", "#["],
    "make": ["#", "\t", "\\\n", "$(", ")", ":=", "define", "endef", "ifeq", "endif", ":", "\t#"],
}
FAMILY_OF = {
    "bash": ["hash"], "c": ["c"], "cpp": ["c"], "c_sharp": ["c"], "css": ["c"], "go": ["c"], "gomod": ["c"],
    "html": ["xml"], "java": ["c"], "javascript": ["c"], "kotlin": ["c"], "makefile": ["hash", "make"],
    "markdown": ["md", "xml"], "php": ["php", "c", "hash"], "python": ["hash"], "ruby": ["hash"], "rust": ["c"],
    "sql": ["sql", "c"], "swift": ["c"], "toml": ["hash"], "typescript": ["c"], "tsx": ["c", "xml"], "xml": ["xml"],
    "yaml": ["hash"],
}


def tokens_for(lang):
    toks = list(COMMON) + list(TAG_FRAGS)
    for fam in FAMILY_OF[lang]:
        toks += BY_FAMILY[fam] * 3
    l = LANGS[lang]
    toks += l["code"]
    toks += [d.replace("%d", "1") for d in l["decoys"]]
    for f in l["forms"]:
        toks += [f.open, f.close or "\n", f.cont or " "] * 2
    return toks


def soup(r, lang, max_tokens=60):
    toks = tokens_for(lang)
    n = r.randint(1, max_tokens)
    # bias: sometimes very tag-heavy, sometimes delimiter-heavy
    mode = r.random()
    out = []
    for _ in range(n):
        if mode < 0.3 and r.random() < 0.5:
            out.append(r.choice(TAG_FRAGS))
        else:
            out.append(r.choice(toks))
    return "".join(out)


def mutate(r, data, nmut=None):
    """Byte-level mutations of a UTF-8 byte string; the result is re-validated as UTF-8 (invalid
    sequences are dropped) because the property quantifies over UTF-8 content only."""
    b = bytearray(data)
    for _ in range(nmut or r.randint(1, 6)):
        if not b:
            b = bytearray(b"x")
        op = r.randrange(7)
        i = r.randrange(len(b))
        j = min(len(b), i + r.randint(1, 12))
        if op == 0:
            del b[i:j]
        elif op == 1:
            b[i:i] = b[i:j]
        elif op == 2:
            k = r.randrange(len(b))
            b[i:i] = b[k:k + r.randint(1, 20)]
        elif op == 3:
            del b[i:]
        elif op == 4:
            b[i:i] = r.choice([b"/*", b"*/", b"<!--", b"-->", b"<block", b"</block>", b"\n", b"\"", b"'", b"[//]: #", b"#", b"//",
                               " ".encode(), "é".encode(), b"<", b">", b"\r"])
        elif op == 5:
            b[i] = r.choice(b"<>/*#-\"'\n (){}[]=!")
        else:
            del b[:i]
    return bytes(b).decode("utf-8", "ignore").encode("utf-8")
