"""Check driver: plans jobs, runs them on a process pool, aggregates three-valued verdicts,
matches known findings, writes replays and evidence, and sets the exit status.

Exit status: 0 = held on everything explored (KNOWN-FINDING lines allowed), 1 = VIOLATION,
2 = inconclusive run (build failure, too few observations, harness error).
"""
import hashlib
import importlib
import json
import multiprocessing
import os
import random
import shutil
import signal
import sys
import time
import traceback

from . import build, run

VERIF = build.VERIF
_OUT = os.environ.get("VERIF_OUT") or VERIF     # mutant self-tests redirect evidence/replays
EVIDENCE_DIR = os.path.join(_OUT, "evidence")
REPLAY_DIR = os.path.join(_OUT, "replays")
FINDINGS_FILE = os.path.join(VERIF, "known_findings.json")

HELD, VIOLATED, INCONCLUSIVE = "held", "violated", "inconclusive"


def h(obj):
    return hashlib.sha1(json.dumps(obj, sort_keys=True, default=str).encode()).hexdigest()[:16]


def subseed(*parts):
    return int(hashlib.sha1(("/".join(str(p) for p in parts)).encode()).hexdigest()[:12], 16)


def rng(*parts):
    return random.Random(subseed(*parts))


class Case:
    """Verdict of one evaluated case (= one or a few real executions judged by an oracle)."""

    def __init__(self, status=HELD, key=None, nontrivial=False, sig=None, summary=None,
                 witness=None, sample=None, evals=1, counters=None, sets=None, bulk=None):
        self.status = status
        self.key = key            # canonical identity of the case (for distinct counting)
        self.nontrivial = nontrivial
        self.sig = sig            # signature of the failing observation (violated only)
        self.summary = summary
        self.witness = witness    # dict written to the replay file
        self.sample = sample      # small human-readable description for evidence
        self.evals = evals        # real executions behind this case
        self.counters = counters or {}
        self.sets = sets or {}    # name -> iterable of strings ("distinct X observed")
        # a held Case may stand for many cases already folded by the worker:
        # {"cases": n, "distinct": d, "nontrivial": t} (distinct within the job; jobs never overlap)
        self.bulk = bulk


class Ctx:
    """What a job sees: binaries, tier, seed."""

    def __init__(self, bins, tier, seed):
        self.bins, self.tier, self.seed = bins, tier, seed

    def bin(self, flavour="rel"):
        return self.bins[flavour]


_WCTX = {}


def _winit(modname, bins, tier, seed, mainpid):
    signal.signal(signal.SIGINT, signal.SIG_IGN)
    os.environ["BWVERIF_MAINPID"] = str(mainpid)
    # a forked worker must not inherit the parent's scratch directory (workers would collide on names)
    run._SCRATCH_ROOT = None
    run._COUNTER[0] = 0
    _WCTX["mod"] = importlib.import_module(modname)
    _WCTX["ctx"] = Ctx(bins, tier, seed)


def _wrun(job):
    mod, ctx = _WCTX["mod"], _WCTX["ctx"]
    t0 = time.time()
    try:
        cases = mod.run_job(job, ctx)
    except Exception:
        cases = [Case(INCONCLUSIVE, key=h(job), summary="harness error: " + traceback.format_exc()[-1500:],
                      witness={"job": job}, evals=0)]
    for c in cases:
        if c.status == VIOLATED:
            c.witness = dict(c.witness or {})
            c.witness.setdefault("job", job)
    return cases, time.time() - t0


def load_findings(pid):
    if not os.path.exists(FINDINGS_FILE):
        return []
    with open(FINDINGS_FILE) as f:
        data = json.load(f)
    return [e for e in data.get("findings", []) if e.get("property") == pid]


def match_finding(entries, sig):
    for e in entries:
        if e.get("status") != "known":
            continue
        if e.get("signature") == sig:
            return e
    return None


def write_evidence(pid, tier, seed, level, coverage, assumptions, wall, violations):
    os.makedirs(EVIDENCE_DIR, exist_ok=True)
    ev = {
        "property_id": pid, "tier": tier, "seed": seed, "level": level,
        "coverage": coverage, "assumptions": assumptions, "wall_s": round(wall, 2),
        "violations": violations,
    }
    tmp = os.path.join(EVIDENCE_DIR, pid + ".json.tmp")
    with open(tmp, "w") as f:
        json.dump(ev, f, indent=1, sort_keys=True, default=str)
    os.replace(tmp, os.path.join(EVIDENCE_DIR, pid + ".json"))


def _write_replay(pid, case):
    d = os.path.join(REPLAY_DIR, pid)
    os.makedirs(d, exist_ok=True)
    name = h([case.sig, case.witness.get("job")]) + ".json"
    path = os.path.join(d, name)
    with open(path, "w") as f:
        json.dump({"property": pid, "signature": case.sig, "summary": case.summary,
                   "witness": case.witness}, f, indent=1, default=str)
    return path


def main(argv=None):
    import argparse
    ap = argparse.ArgumentParser(prog="check")
    ap.add_argument("pid")
    ap.add_argument("--tier", default=os.environ.get("VERIF_TIER", "quick"), choices=["quick", "thorough"])
    ap.add_argument("--replay")
    ap.add_argument("--jobs", type=int, default=int(os.environ.get("VERIF_JOBS", "0")) or (os.cpu_count() or 4))
    ap.add_argument("--budget", type=float, default=float(os.environ.get("VERIF_BUDGET", "0")))
    args = ap.parse_args(argv)
    pid = args.pid.upper()
    seed = int(os.environ.get("VERIF_SEED", "0") or 0)
    modname = "bwverif.checks.%s" % pid.lower()
    mod = importlib.import_module(modname)
    t0 = time.time()
    mainpid = os.getpid()
    os.environ["BWVERIF_MAINPID"] = str(mainpid)

    # -- builds, always from the repository's current working tree ------------------------
    flavours = list(mod.BUILDS[args.tier]) if isinstance(mod.BUILDS, dict) else list(mod.BUILDS)
    bins = {}
    optional = set(getattr(mod, "OPTIONAL_BUILDS", ()))
    build_notes = []
    for fl in flavours:
        try:
            bins[fl] = build.build(fl, copy_to=os.path.join(run.scratch_top(), "bin"))
        except build.BuildError as e:
            if fl in optional:
                build_notes.append("build %s failed -> its shard is inconclusive: %s" % (fl, str(e)[-300:]))
                continue
            print("INCONCLUSIVE: property=%s build %s failed" % (pid, fl))
            sys.stderr.write(str(e) + "\n")
            return 2
    ctx = Ctx(bins, args.tier, seed)

    try:
        if args.replay:
            return _replay(mod, ctx, pid, args.replay)
        return _run(mod, modname, ctx, pid, args, t0, build_notes)
    finally:
        shutil.rmtree(run.scratch_top(), ignore_errors=True)


def _replay(mod, ctx, pid, path):
    with open(path) as f:
        data = json.load(f)
    job = data["witness"]["job"]
    _WCTX["mod"], _WCTX["ctx"] = mod, ctx
    cases, _ = _wrun(job)
    bad = [c for c in cases if c.status == VIOLATED]
    entries = load_findings(pid)
    rc = 0
    for c in bad:
        known = match_finding(entries, c.sig)
        if known:
            print("KNOWN-FINDING: property=%s %s" % (pid, known.get("summary", c.sig)))
        else:
            print("VIOLATION property=%s replay=%s" % (pid, path))
            print("  signature: %s" % c.sig)
            print("  " + (c.summary or ""))
            rc = 1
    inc = [c for c in cases if c.status == INCONCLUSIVE]
    for c in inc:
        print("INCONCLUSIVE: %s" % c.summary)
    if not bad and not inc:
        print("replay: held (%d cases)" % len(cases))
    return rc if rc else (2 if inc and not bad else 0)


def _run(mod, modname, ctx, pid, args, t0, build_notes):
    tier, seed = ctx.tier, ctx.seed
    jobs = list(mod.plan(tier, seed))
    entries = load_findings(pid)
    # witnesses of recorded findings are re-executed on every run (fixed ones as regressions)
    extra = [e["witness_job"] for e in entries if e.get("witness_job") is not None]
    jobs = extra + jobs
    budget = args.budget or getattr(mod, "BUDGET_S", {}).get(tier, 0)

    agg = {
        "evals": 0, "cases": 0, "keys": set(), "nontrivial_keys": set(), "counters": {}, "sets": {},
        "samples": [], "inconclusive": [], "violations": [], "jobs_done": 0, "jobs_total": len(jobs),
        "bulk_distinct": 0, "bulk_nontrivial": 0,
    }
    nworkers = max(1, min(args.jobs, len(jobs)))
    pool = multiprocessing.Pool(nworkers, initializer=_winit,
                                initargs=(modname, ctx.bins, tier, seed, os.getpid()))
    cut = False
    try:
        for cases, _dt in pool.imap_unordered(_wrun, jobs, chunksize=1):
            agg["jobs_done"] += 1
            for c in cases:
                agg["evals"] += c.evals
                if c.bulk:
                    agg["cases"] += c.bulk["cases"]
                    agg["bulk_distinct"] += c.bulk["distinct"]
                    agg["bulk_nontrivial"] += c.bulk["nontrivial"]
                    for n, v in c.counters.items():
                        agg["counters"][n] = agg["counters"].get(n, 0) + v
                    for n, vs in c.sets.items():
                        agg["sets"].setdefault(n, set()).update(vs)
                    if c.sample is not None and len(agg["samples"]) < 4:
                        agg["samples"].append(c.sample)
                    continue
                agg["cases"] += 1
                k = c.key or h([agg["cases"]])
                if c.status != INCONCLUSIVE:
                    agg["keys"].add(k)
                    if c.nontrivial:
                        agg["nontrivial_keys"].add(k)
                for n, v in c.counters.items():
                    agg["counters"][n] = agg["counters"].get(n, 0) + v
                for n, vs in c.sets.items():
                    agg["sets"].setdefault(n, set()).update(vs)
                if c.sample is not None and len(agg["samples"]) < 4 and (c.nontrivial or len(agg["samples"]) < 1):
                    agg["samples"].append(c.sample)
                if c.status == VIOLATED:
                    agg["violations"].append(c)
                elif c.status == INCONCLUSIVE:
                    agg["inconclusive"].append(c)
            if budget and time.time() - t0 > budget:
                cut = True
                break
    finally:
        pool.terminate()
        pool.join()

    # -- verdict ---------------------------------------------------------------------------
    known_hit, unknown = {}, []
    for c in agg["violations"]:
        e = match_finding(entries, c.sig)
        if e:
            known_hit.setdefault(e["key"], [e, 0])[1] += 1
        else:
            unknown.append(c)
    rc = 0
    for key, (e, n) in sorted(known_hit.items()):
        print("KNOWN-FINDING: property=%s %s [%s; %d cases this run]" % (pid, e.get("summary", ""), key, n))
    seen_sig = {}
    for c in unknown:
        seen_sig.setdefault(c.sig, []).append(c)
    for sig, cs in sorted(seen_sig.items(), key=lambda kv: str(kv[0])):
        path = _write_replay(pid, cs[0])
        print("VIOLATION property=%s replay=%s" % (pid, path))
        print("  signature: %s   (%d cases)" % (sig, len(cs)))
        print("  " + (cs[0].summary or "")[:1500])
        rc = 1

    counters = dict(agg["counters"])
    distinct_sets = {n: len(v) for n, v in agg["sets"].items()}
    coverage = {
        "evaluations": agg["evals"],
        "cases": agg["cases"],
        "distinct_cases": len(agg["keys"]) + agg["bulk_distinct"],
        "distinct_nontrivial": len(agg["nontrivial_keys"]) + agg["bulk_nontrivial"],
        "rule": mod.RULE,
        "samples": agg["samples"] or [{"note": "no sample recorded"}],
        "counters": counters,
        "distinct_observed": distinct_sets,
        "observed_values": {n: sorted(v)[:60] for n, v in agg["sets"].items() if len(v) <= 400},
        "inconclusive_cases": len(agg["inconclusive"]),
        "inconclusive_samples": [c.summary for c in agg["inconclusive"][:5]],
        "known_findings_hit": {k: n for k, (e, n) in known_hit.items()},
        "jobs_done": agg["jobs_done"], "jobs_planned": agg["jobs_total"],
        "budget_cut": cut,
        "builds": sorted(ctx.bins),
        "build_notes": build_notes,
    }
    if getattr(mod, "EXHAUSTIVE", {}).get(tier) and not cut and not agg["inconclusive"]:
        coverage["exhaustive"] = True
        coverage["exhaustive_over"] = mod.EXHAUSTIVE[tier]

    # a run that observed too little is inconclusive, never a pass
    problems = []
    fin = getattr(mod, "finalize", None)
    if fin:
        fp = list(fin(agg, tier, coverage) or [])
        if cut and agg["jobs_done"] * 4 >= agg["jobs_total"]:
            # the time budget ended the run early (a loaded machine): completeness complaints of the check are recorded in the
            # evidence, but what was observed (at least a quarter of the plan) stands as observed
            coverage["finalize_notes_after_budget_cut"] = fp
        else:
            problems += fp
    if len(agg["nontrivial_keys"]) + agg["bulk_nontrivial"] < 2:
        problems.append("fewer than 2 distinct non-trivial cases observed")
    if len(agg["inconclusive"]) > max(3, agg["cases"] // 20):
        problems.append("%d of %d cases inconclusive" % (len(agg["inconclusive"]), agg["cases"]))

    wall = time.time() - t0
    write_evidence(pid, tier, seed, mod.LEVEL, coverage, list(mod.ASSUMPTIONS), wall, len(unknown))
    print("%s %s seed=%d: %d executions, %d cases (%d distinct, %d non-trivial), %d inconclusive, "
          "%d known-finding cases, %d violations, %.1fs%s" % (
              pid, tier, seed, agg["evals"], agg["cases"], len(agg["keys"]) + agg["bulk_distinct"],
              len(agg["nontrivial_keys"]) + agg["bulk_nontrivial"],
              len(agg["inconclusive"]), sum(n for _, n in known_hit.values()), len(unknown), wall,
              " (budget cut after %d/%d jobs)" % (agg["jobs_done"], agg["jobs_total"]) if cut else ""))
    if distinct_sets:
        print("  observed: " + ", ".join("%s=%d" % kv for kv in sorted(distinct_sets.items())))
    if rc:
        return 1
    if problems:
        for p in problems:
            print("INCONCLUSIVE: property=%s %s" % (pid, p))
        for c in agg["inconclusive"][:3]:
            print("  e.g. " + (c.summary or "")[:800])
        return 2
    return 0
